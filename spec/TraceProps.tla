----------------------------- MODULE TraceProps -----------------------------
(* Property verdict on recorded executions of the real crate: the monitors of Props.tla are run over the        *)
(* observation stream written by the harness.  A `reset` record separates programs.                             *)
EXTENDS Props, Json, IOUtils
SE == INSTANCE SequencesExt

Rec == ndJsonDeserialize(IOEnv.TRACE)

VARIABLES l, m, pid, bad
tvars == <<l, m, pid, bad>>

TInit == l = 1 /\ m = MInit /\ pid = "" /\ bad = {}

TNext ==
    /\ l <= Len(Rec)
    /\ l' = l + 1
    /\ LET o == Rec[l] IN
       IF o.t = "reset"
       THEN m' = MInit /\ pid' = o.id /\ bad' = bad
       ELSE /\ m' = MonStep(m, o)
            /\ pid' = pid
            /\ bad' = bad \cup { [id |-> pid, p |-> v[1], why |-> v[2], l |-> l] : v \in (m'.viol \ m.viol) }

TSpec == TInit /\ [][TNext]_tvars

(* evaluated as an invariant: when the whole trace has been consumed, write the verdict *)
Verdict ==
    l = Len(Rec) + 1 =>
        JsonSerialize(IOEnv.OUT, [consumed |-> Len(Rec), violations |-> SE!SetToSeq(bad)])
=============================================================================
