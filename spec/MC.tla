--------------------------------- MODULE MC ---------------------------------
(* Cobweb.tla composed with the monitors of Props.tla: the design itself is model-checked against the same  *)
(* monitors that judge the real executions.  Configurations (MC_*.cfg) pick alphabets and bounds.           *)
EXTENDS Cobweb

VARIABLE m
vars == <<w, out, m>>

Init == CInit /\ m = MonSeq(MInit, out)
Next == CNext /\ m' = MonSeq(m, out')
Spec == Init /\ [][Next]_vars

NoViol == m.viol = {}
Inv_C01 == ViolOf(m, "C01") = {}
Inv_C02 == ViolOf(m, "C02") = {}
Inv_C03 == ViolOf(m, "C03") = {}
Inv_C04 == ViolOf(m, "C04") = {}
Inv_C05 == ViolOf(m, "C05") = {}
Inv_C06 == ViolOf(m, "C06") = {}
Inv_C07 == ViolOf(m, "C07") = {}
Inv_C08 == ViolOf(m, "C08") = {}
Inv_C09 == ViolOf(m, "C09") = {}
Inv_C11 == ViolOf(m, "C11") = {}
Inv_C12 == ViolOf(m, "C12") = {}
Inv_C13 == ViolOf(m, "C13") = {}
Inv_C14 == ViolOf(m, "C14") = {}
Inv_C15 == ViolOf(m, "C15") = {}
Inv_C16 == ViolOf(m, "C16") = {}
Inv_C18 == ViolOf(m, "C18") = {}
Inv_Stream == ViolOf(m, "C00") = {}

(* structural invariants of the model itself *)
RcOK == \A h \in DOMAIN w.rc : w.rc[h] >= 0
StackOK == \A i \in DOMAIN w.stack : w.stack[i].f \in {"q", "r", "d"}
IdleAtRest == Len(w.stack) = 0 =>
    /\ w.counter = 0 /\ Len(w.buffered) = 0
    /\ Len(w.ev.prepared) = 0 /\ Len(w.se.prepared) = 0 /\ Len(w.er.prepared) = 0 /\ Len(w.ds.prepared) = 0
    /\ ~w.ev.reacting /\ ~w.se.reacting /\ ~w.er.reacting /\ ~w.ds.reacting
    /\ \A s \in w.alive : w.storage[s] = "idle"

(* ---- named constant values used by the configurations ---- *)
NoOps == <<>>
NoSet == {}
B_Event == { <<>>, << <<"bc", 1>> >>, << <<"eev", 1, 1>> >>, << <<"anyev", 1>> >>, << <<"res", 1>> >>,
             << <<"bc", 1>>, <<"eev", 1, 1>> >> }
B_One == { << <<"bc", 1>> >> }
Init_Listen == << <<"reg", "persistent", 1, << <<"bc", 1>>, <<"eev", 1, 1>> >>, 0>>,
                  <<"reg", "persistent", 2, << <<"bc", 1>>, <<"anyev", 1>> >>, 0>> >>
Init_ListenRc == << <<"reg", "persistent", 1, << <<"bc", 1>>, <<"eev", 1, 1>> >>, 0>>,
                    <<"reg", "cleanup", 2, << <<"bc", 1>>, <<"res", 1>> >>, 0>>,
                    <<"reg", "revokable", 3, << <<"anyev", 1>>, <<"bc", 1>> >>, 1>> >>
=============================================================================
