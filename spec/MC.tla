--------------------------------- MODULE MC ---------------------------------
(* Cobweb.tla composed with the monitors of Props.tla: the design itself is model-checked against the same  *)
(* monitors that judge the real executions.  Configurations (MC_*.cfg) pick alphabets and bounds.           *)
EXTENDS Cobweb

VARIABLE m
vars == <<w, out, m>>

Init == CInit /\ m = MonSeq(MInit, out)
Next == CNext /\ m' = MonSeq(m, out')
Spec == Init /\ [][Next]_vars

NoViol == { v \in m.viol : v[2] \notin KnownWhys } = {}
Inv_C01 == ViolOf(m, "C01") = {}
Inv_C02 == ViolOf(m, "C02") = {}
Inv_C03 == ViolOf(m, "C03") = {}
Inv_C04 == ViolOf(m, "C04") = {}
Inv_C05 == ViolOf(m, "C05") = {}
Inv_C06 == ViolOf(m, "C06") = {}
Inv_C07 == ViolOf(m, "C07") = {}
Inv_C08 == ViolOf(m, "C08") = {}
Inv_C09 == ViolOf(m, "C09") = {}
Inv_C11 == ViolOf(m, "C11") = {}
Inv_C12 == ViolOf(m, "C12") = {}
Inv_C13 == ViolOf(m, "C13") = {}
Inv_C14 == ViolOf(m, "C14") = {}
Inv_C15 == ViolOf(m, "C15") = {}
Inv_C16 == ViolOf(m, "C16") = {}
Inv_C18 == ViolOf(m, "C18") = {}
Inv_Stream == ViolOf(m, "C00") = {}

(* C02, liveness half: under weak fairness every behaviour of the model comes to rest - the driver is idle and no further  *)
(* step is possible (the budgets are finite, so a behaviour that never rests would be a livelock of the runner itself,     *)
(* e.g. a deferred command that is re-deferred for ever)                                                                  *)
FairSpec == Spec /\ WF_vars(Next)
Terminates == <>[](Len(w.stack) = 0 /\ ~ENABLED Next)

(* structural invariants of the model itself *)
RcOK == \A h \in DOMAIN w.rc : w.rc[h] >= 0
StackOK == \A i \in DOMAIN w.stack : w.stack[i].f \in {"q", "r", "d"}
IdleAtRest == Len(w.stack) = 0 =>
    /\ w.counter = 0 /\ Len(w.buffered) = 0
    /\ Len(w.ev.prepared) = 0 /\ Len(w.se.prepared) = 0 /\ Len(w.er.prepared) = 0 /\ Len(w.ds.prepared) = 0
    /\ ~w.ev.reacting /\ ~w.se.reacting /\ ~w.er.reacting /\ ~w.ds.reacting
    /\ \A s \in w.alive : w.storage[s] = "idle"

(* ---- named constant values used by the configurations (see vlib/configs.py) ---- *)
NoOps == <<>>
B_Event == { <<>>, << <<"bc", 1>> >>, << <<"eev", 1, 1>> >>, << <<"anyev", 1>> >>, << <<"res", 1>> >>,
             << <<"bc", 1>>, <<"eev", 1, 1>> >> }
B_Small == { <<>>, << <<"bc", 1>> >>, << <<"eev", 1, 1>> >>, << <<"bc", 1>>, <<"anyev", 1>> >> }
B_One == { << <<"bc", 1>> >> }
B_Comp1 == { << <<"ins", 1>> >>, << <<"mut", 1>> >>, << <<"rem", 1>> >> }
B_EvTab == { << <<"eev", 1, 1>>, <<"bc", 1>> >>, << <<"bc", 1>>, <<"bc", 1>> >>, << <<"bc", 1>> >>, << <<"anyev", 1>> >> }
B_Mixed == { << <<"emut", 1, 1>>, <<"res", 1>> >>, << <<"desp", 1>>, <<"bc", 1>> >>, << <<"erem", 1, 1>>, <<"rem", 1>> >>, << <<"res", 1>>, <<"res", 1>> >> }
Init_Ins == << <<"ins", 1, 1, 1>> >>
Init_Burst == << <<"ins", 1, 1, 1>>, <<"ins", 2, 1, 1>>,
                 <<"reg", "persistent", 1, << <<"bc", 1>>, <<"eev", 1, 1>>, <<"mut", 1>>, <<"ins", 1>>, <<"res", 1>> >>, 0>> >>
B_Comp == { <<>>, << <<"mut", 1>> >>, << <<"rem", 1>> >>, << <<"erem", 1, 1>> >>, << <<"desp", 1>> >>,
            << <<"ins", 1>>, <<"emut", 1, 1>> >>, << <<"desp", 1>>, <<"desp", 2>> >> }
B_Types == { << <<"bc", 1>> >>, << <<"bc", 2>> >>, << <<"eev", 1, 1>> >>, << <<"eev", 2, 1>> >>, << <<"eev", 1, 2>> >>,
             << <<"anyev", 1>> >>, << <<"anyev", 2>> >>, << <<"res", 1>> >>, << <<"res", 2>> >>,
             << <<"mut", 1>> >>, << <<"mut", 2>> >>, << <<"ins", 1>> >>, << <<"emut", 1, 1>> >>, << <<"emut", 2, 1>> >> }
B_World == { << <<"bc", 1>> >>, << <<"res", 1>> >>, << <<"mut", 1>> >>, << <<"ins", 1>> >>, << <<"eev", 1, 1>> >>, << <<"bc", 1>>, <<"mut", 1>> >>,
             << <<"eev", 2, 1>>, <<"res", 1>> >> }
B_World1 == { << <<"bc", 1>> >>, << <<"mut", 1>> >>, << <<"ins", 1>> >> }
Init_World == << <<"ins", 1, 1, 1>>, <<"ins", 2, 1, 1>> >>
Init_Listen == << <<"reg", "persistent", 1, << <<"bc", 1>>, <<"eev", 1, 1>> >>, 0>>,
                  <<"reg", "persistent", 2, << <<"bc", 1>>, <<"anyev", 1>> >>, 0>> >>
Init_ListenRc == << <<"reg", "persistent", 1, << <<"bc", 1>>, <<"eev", 1, 1>> >>, 0>>,
                    <<"reg", "cleanup", 2, << <<"bc", 1>>, <<"res", 1>> >>, 0>>,
                    <<"reg", "revokable", 3, << <<"anyev", 1>>, <<"bc", 1>> >>, 1>> >>
Init_All == << <<"ins", 1, 1, 1>>, <<"ins", 2, 1, 1>>,
               <<"reg", "persistent", 1, << <<"bc", 1>>, <<"eev", 1, 1>>, <<"mut", 1>>, <<"rem", 1>> >>, 0>>,
               <<"reg", "persistent", 2, << <<"anyev", 1>>, <<"ins", 1>>, <<"erem", 1, 1>>, <<"desp", 2>> >>, 0>> >>
Init_Comp == << <<"ins", 1, 1, 1>>, <<"ins", 2, 1, 1>>,
                <<"reg", "persistent", 1, << <<"mut", 1>>, <<"rem", 1>>, <<"eins", 2, 1>>, <<"res", 1>> >>, 0>>,
                <<"reg", "cleanup", 2, << <<"ins", 1>>, <<"erem", 1, 1>>, <<"desp", 2>> >>, 0>> >>
Init_ErBurst == << <<"ins", 1, 1, 1>>, <<"ins", 2, 1, 1>>, <<"ins", 1, 2, 1>>,
                   <<"reg", "persistent", 1, << <<"anyev", 1>>, <<"mut", 1>>, <<"ins", 1>>, <<"mut", 2>> >>, 0>>,
                   <<"reg", "persistent", 2, << <<"eev", 1, 1>>, <<"emut", 2, 1>>, <<"rem", 1>> >>, 0>> >>
Init_TabRem == << <<"ins", 1, 1, 1>>, <<"ins", 2, 1, 1>>,
                  <<"reg", "persistent", 1, << <<"erem", 1, 1>>, <<"desp", 2>> >>, 0>> >>
B_Desp == { << <<"desp", 1>> >>, << <<"desp", 2>> >>, << <<"desp", 1>>, <<"desp", 2>> >> }
Init_TabDesp == << <<"reg", "revokable", 1, << <<"desp", 1>> >>, 1>>,
                   <<"reg", "persistent", 2, << <<"desp", 2>> >>, 0>> >>
Init_Hier == << <<"ins", 1, 1, 1>>, <<"ins", 2, 1, 1>>, <<"ins", 3, 1, 1>>, <<"ins", 2, 2, 1>>,
                <<"reg", "persistent", 1, << <<"rem", 1>>, <<"erem", 2, 1>>, <<"desp", 3>> >>, 0>>,
                <<"reg", "cleanup", 2, << <<"desp", 1>>, <<"desp", 2>>, <<"erem", 3, 1>>, <<"rem", 2>> >>, 0>> >>
Init_EwBurst == << <<"ins", 1, 1, 1>>, <<"ins", 2, 1, 1>>, <<"ins", 3, 1, 1>>, <<"eadd", 1, 1, 1>>, <<"eadd", 1, 2, 2>>, <<"eadd", 1, 3, 1>> >>
Init_OnlyErem == << <<"ins", 1, 1, 1>>, <<"reg", "persistent", 1, << <<"erem", 1, 1>> >>, 0>> >>
Init_Desp == << <<"ins", 1, 1, 1>>,
                <<"reg", "cleanup", 1, << <<"desp", 1>>, <<"desp", 2>> >>, 0>>,
                <<"reg", "revokable", 2, << <<"desp", 1>>, <<"rem", 1>> >>, 1>> >>
=============================================================================
