------------------------------ MODULE TraceConf ------------------------------
(* Impl -> spec: every recorded execution of the real crate must be a behaviour of Cobweb.tla.  The bodies'   *)
(* choices are bound to the ops the execution actually issued (the program is recovered from the `issue`      *)
(* records and stored in w.prog); each transition must then emit exactly the next records of the stream.      *)
(* Programs are validated one after the other; validation stops at the first record that no transition       *)
(* explains, and the post-condition reports how far it got (the driver restarts behind a rejected program).   *)
EXTENDS Cobweb, Json, IOUtils, TLCExt

NoOps == <<>>
NoSetTC == {}
Progs == ndJsonDeserialize(IOEnv.PROGS)     \* one record per program: [id, prog, stream]

VARIABLES pi, l
tcvars == <<w, out, pi, l>>

Load(i) == [WInit EXCEPT !.prog = Progs[i].prog]

TCInit == pi = 1 /\ l = 2 /\ w = Load(1) /\ out = <<CfgRec>>

Stream == Progs[pi].stream
FinishedProg == Len(w.stack) = 0 /\ w.step >= Len(w.prog.steps)

TCNext ==
    IF FinishedProg
    THEN /\ l = Len(Stream) + 1          \* nothing of the stream may be left over
         /\ pi < Len(Progs)
         /\ pi' = pi + 1 /\ l' = 2 /\ w' = Load(pi + 1) /\ out' = <<CfgRec>>
    ELSE /\ CNext
         /\ l + Len(out') - 1 <= Len(Stream)
         /\ out' = SubSeq(Stream, l, l + Len(out') - 1)
         /\ l' = l + Len(out')
         /\ pi' = pi

TCSpec == TCInit /\ [][TCNext]_tcvars

(* progress report: the last program completely accepted, and the position reached in the current one *)
Progress == TLCSet(1, <<pi, l, FinishedProg /\ l = Len(Stream) + 1>>)
Report == JsonSerialize(IOEnv.OUT, [pi |-> TLCGet(1)[1], l |-> TLCGet(1)[2], fin |-> TLCGet(1)[3], n |-> Len(Progs)])
=============================================================================
