------------------------------ MODULE TraceHook ------------------------------
(* The runner-protocol monitor of HookProps.tla over hook-only traces (the repository's own test suite run with      *)
(* --cfg cobweb_verif and COBWEB_VERIF_DIR).  A `reset` record separates executions.                                 *)
EXTENDS HookProps, Json, IOUtils
SE == INSTANCE SequencesExt

Rec == ndJsonDeserialize(IOEnv.TRACE)

VARIABLES l, h, pid, bad
hvars == <<l, h, pid, bad>>

HTInit == l = 1 /\ h = HInit /\ pid = "" /\ bad = {}

HTNext ==
    /\ l <= Len(Rec)
    /\ l' = l + 1
    /\ LET o == Rec[l] IN
       IF o.t = "reset"
       THEN h' = HInit /\ pid' = o.id /\ bad' = bad
       ELSE /\ h' = HookStep(h, o)
            /\ pid' = pid
            /\ bad' = bad \cup { [id |-> pid, p |-> v[1], why |-> v[2], l |-> l] : v \in (h'.viol \ h.viol) }

HTSpec == HTInit /\ [][HTNext]_hvars

Verdict ==
    l = Len(Rec) + 1 =>
        JsonSerialize(IOEnv.OUT, [consumed |-> Len(Rec), violations |-> SE!SetToSeq(bad)])
=============================================================================
