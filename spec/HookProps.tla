----------------------------- MODULE HookProps -----------------------------
(***************************************************************************)
(* A monitor for executions that were NOT driven by the harness: only the  *)
(* hook-level records exist (cmd, sched, enter, abort, postpone, take,     *)
(* reinsert, dropcb, replay, discard, exit, gc, poll, pollend,             *)
(* oncedespawn).  It judges the runner protocol of Cobweb.tla - the part   *)
(* of C02 / C09 / C11 / C12 / C01 / C08 that needs no knowledge of the     *)
(* program - on the traces of the repository's own test suite.             *)
(*                                                                         *)
(* State: cmd[k] = [s, st, seq], a stack of frames (cmd / poll), reactions *)
(* scheduled and not yet applied (owed), the last applied command that has *)
(* not entered the runner yet.                                             *)
(***************************************************************************)
EXTENDS Props

HInit == [ cmd |-> <<>>, stack |-> <<>>, owed |-> <<>>, last |-> [s |-> 0, kind |-> "none"], n |-> 0, viol |-> {} ]

HTop(h) == IF Len(h.stack) = 0 THEN [f |-> "none"] ELSE h.stack[Len(h.stack)]
HPop(h) == [h EXCEPT !.stack = SubSeq(@, 1, Len(@) - 1)]
HPush(h, fr) == [h EXCEPT !.stack = Append(@, fr)]
HSetTop(h, fr) == [h EXCEPT !.stack = [@ EXCEPT ![Len(@)] = fr]]
HExecuting(h, s) == \E i \in DOMAIN h.stack : h.stack[i].f = "cmd" /\ h.stack[i].s = s /\ h.stack[i].took /\ ~h.stack[i].fin
HSet(h, k, st) == [h EXCEPT !.cmd = [@ EXCEPT ![k].st = st]]

HCmd(h, o) ==
    LET h1 == Chk(h, h.last.kind = "none", "C02", "a command was applied but never entered the runner")
    IN IF o.kind \in {"run", "sysev"}
       THEN [h1 EXCEPT !.last = [s |-> o.sys, kind |-> o.kind]]
       ELSE \* a reaction command: some trigger dispatch must have scheduled it for this system
            LET idx == FirstIdx(h1.owed, LAMBDA x : x.s = o.sys /\ x.d = o.data /\ x.kind = o.kind)
                h2 == IF idx = 0 THEN V(h1, "C01", "a reaction command was applied that no trigger dispatch scheduled")
                      ELSE Chk([h1 EXCEPT !.owed = RemoveAt(@, idx)], h1.owed[idx].lvl = Len(h1.stack), "C09",
                               "a scheduled reaction ran outside the scope of the trigger that caused it")
            IN [h2 EXCEPT !.last = [s |-> o.sys, kind |-> o.kind]]

KindOfTrig(trig) == CASE trig = "bc" -> "bc" [] trig = "eev" -> "eev" [] trig = "res" -> "res" [] trig = "desp" -> "desp" [] OTHER -> "ereact"

HSched(h, o) ==
    LET t == HTop(h)
        h1 == IF o.trig \in {"rem", "desp"} THEN Chk(h, t.f = "poll", "C08", "removal or despawn reaction scheduled outside a poll") ELSE h
        owe == [ i \in DOMAIN o.reactors |-> [s |-> o.reactors[i], d |-> o.data, kind |-> KindOfTrig(o.trig), lvl |-> Len(h.stack)] ]
    IN [h1 EXCEPT !.owed = @ \o owe]

HEnter(h, o) ==
    IF o.k \in DOMAIN h.cmd
    THEN LET h1 == Chk(h, h.cmd[o.k].st = "replaying", "C02", "a command was entered a second time without having been postponed")
         IN HPush(h1, [f |-> "cmd", k |-> o.k, s |-> h.cmd[o.k].s, took |-> FALSE, fin |-> FALSE, idx |-> o.idx])
    ELSE LET ok == h.last.kind # "none" /\ h.last.s = o.sys
             h1 == Chk(h, ok, "C02", "runner entered without a command application")
         IN HPush([h1 EXCEPT !.cmd = Put(@, o.k, [s |-> o.sys, st |-> "reached", seq |-> h.n + 1]), !.n = @ + 1,
                             !.last = [s |-> 0, kind |-> "none"]],
                  [f |-> "cmd", k |-> o.k, s |-> o.sys, took |-> FALSE, fin |-> FALSE, idx |-> o.idx])

HKnown(h, o, F(_)) == IF o.k \in DOMAIN h.cmd THEN F(h.cmd[o.k]) ELSE V(h, "C00", "record for an unknown command")

HAbort(h, o) == HKnown(h, o, LAMBDA c :
    LET h1 == Chk(h, c.st \in {"reached", "replaying"}, "C02", "a command was aborted in an unexpected state")
        h2 == Chk(h1, o.why # "nocallback", "C02", "a command was skipped although its target exists and is not executing")
    IN HSet(h2, o.k, "aborted"))

HPostpone(h, o) == HKnown(h, o, LAMBDA c :
    LET h1 == Chk(h, HExecuting(h, c.s), "C02", "a command was postponed although its target is not executing")
        h2 == Chk(h1, c.st = "reached", "C02", "a command was postponed twice")
    IN HSet(h2, o.k, "postponed"))

HTake(h, o) == HKnown(h, o, LAMBDA c :
    LET t == HTop(h)
        h1 == Chk(h, c.st \in {"reached", "replaying"}, "C02", "a command was run in an unexpected state")
        h2 == Chk(h1, ~HExecuting(h, c.s), "C02", "a system was run while it is already executing")
        h3 == IF t.f = "cmd" /\ t.k = o.k THEN HSetTop(h2, [t EXCEPT !.took = TRUE]) ELSE V(h2, "C09", "take outside its command")
    IN HSet(h3, o.k, "running"))

HFinish(h, o) ==
    LET t == HTop(h) IN
    IF ~(t.f = "cmd" /\ t.s = o.sys /\ t.took) THEN V(h, "C09", "callback returned outside its command")
    ELSE HSet(HSetTop(h, [t EXCEPT !.fin = TRUE]), t.k, "ran")

HReplay(h, o) == HKnown(h, o, LAMBDA c :
    LET t == HTop(h)
        h1 == Chk(h, c.st = "postponed", "C02", "a command that was not postponed was replayed")
        h2 == Chk(h1, t.f = "cmd" /\ t.fin /\ t.s = c.s, "C09", "a postponed command was not replayed right after its target finished")
        older == \E j \in DOMAIN h.cmd : j # o.k /\ h.cmd[j].s = c.s /\ h.cmd[j].st = "postponed" /\ h.cmd[j].seq < c.seq
        h3 == IF older THEN V2(h2, "C12", "C09", "a postponed command was replayed before an older one for the same system") ELSE h2
    IN HSet(h3, o.k, "replaying"))

HDiscard(h, o) == HKnown(h, o, LAMBDA c :
    LET t == HTop(h)
        h1 == Chk(h, c.st = "postponed", "C02", "a command that was not postponed was discarded")
        h2 == Chk(h1, t.f = "cmd" /\ t.idx = 0, "C02", "a postponed command was discarded by a command that is not the root of the tree")
    IN HSet(h2, o.k, "discarded"))

HExit(h, o) ==
    LET t == HTop(h) IN
    IF ~(t.f = "cmd" /\ t.k = o.k) THEN V(h, "C09", "command exit does not match the innermost open command") ELSE
    LET outer == \E i \in 1..(Len(h.stack) - 1) : h.stack[i].f = "cmd" /\ h.stack[i].s = t.s /\ h.stack[i].fin
        left == ~outer /\ \E j \in DOMAIN h.cmd : h.cmd[j].st = "postponed" /\ h.cmd[j].s = t.s
        h1 == IF t.took /\ left THEN V2(h, "C09", "C02", "a postponed command was not replayed when its target finished") ELSE h
        h2 == Chk(h1, ~t.took \/ t.fin, "C09", "command exit before the callback was returned")
        owedHere == \E i \in DOMAIN h.owed : h.owed[i].lvl >= Len(h.stack)
        h3 == IF owedHere THEN V2([h2 EXCEPT !.owed = SelectSeq(@, LAMBDA x : x.lvl < Len(h.stack))], "C02", "C09",
                                  "a scheduled reaction had not run when the command that caused it finished") ELSE h2
        \* the root of a tree leaves nothing behind
        h4 == IF t.idx = 0 /\ Len(h.stack) = 1
              THEN Chk(h3, ~\E j \in DOMAIN h.cmd : h.cmd[j].st \in {"reached", "postponed", "replaying", "running"} /\ j # o.k,
                       "C11", "commands were still pending when the root of the tree finished")
              ELSE h3
    IN HPop(h4)

HPollend(h, o) ==
    LET t == HTop(h) IN
    IF t.f # "poll" THEN V(h, "C09", "poll end does not close a poll") ELSE
    LET owedHere == \E i \in DOMAIN h.owed : h.owed[i].lvl >= Len(h.stack)
        h1 == IF owedHere THEN V2([h EXCEPT !.owed = SelectSeq(@, LAMBDA x : x.lvl < Len(h.stack))], "C02", "C08",
                                  "a scheduled removal/despawn reaction did not run in the poll that found it") ELSE h
    IN HPop(h1)

(* end of a test: every tree has completed *)
HEnd(h, o) ==
    LET h1 == Chk(h, Len(h.stack) = 0, "C09", "commands still open at the end of the execution")
        h2 == Chk(h1, ~\E k \in DOMAIN h.cmd : h.cmd[k].st \in {"reached", "postponed", "replaying", "running"}, "C02",
                  "a command had neither run nor been skipped at the end of the execution")
        h3 == Chk(h2, Len(h.owed) = 0 /\ h.last.kind = "none", "C02", "a scheduled reaction never ran")
    IN h3

HookStep(h, o) ==
    CASE o.t = "cmd" -> HCmd(h, o)
      [] o.t = "sched" -> HSched(h, o)
      [] o.t = "enter" -> HEnter(h, o)
      [] o.t = "abort" -> HAbort(h, o)
      [] o.t = "postpone" -> HPostpone(h, o)
      [] o.t = "take" -> HTake(h, o)
      [] o.t = "reinsert" -> HFinish(h, o)
      [] o.t = "dropcb" -> HFinish(h, o)
      [] o.t = "replay" -> HReplay(h, o)
      [] o.t = "discard" -> HDiscard(h, o)
      [] o.t = "exit" -> HExit(h, o)
      [] o.t = "gc" -> Chk(h, o.closed = 1, "C18", "garbage collection did not complete")
      [] o.t = "poll" -> HPush(h, [f |-> "poll"])
      [] o.t = "pollend" -> HPollend(h, o)
      [] o.t = "oncedespawn" -> h
      [] o.t = "end" -> HEnd(h, o)
      [] OTHER -> V(h, "C00", "unknown record")
=============================================================================
