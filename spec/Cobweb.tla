------------------------------- MODULE Cobweb -------------------------------
(***************************************************************************)
(* Implementation-shaped specification of the bevy_cobweb runtime.         *)
(*                                                                         *)
(* The recursion of `syscommand_runner` and of Bevy's per-command flush is *)
(* an explicit STACK OF FRAMES; every step between two hook points is one  *)
(* transition, and every transition emits the observation records the real *)
(* crate (built with --cfg cobweb_verif, driven by /verif/harness) emits   *)
(* for the same step, in the variable `out`.  Bodies of systems and driver *)
(* steps are NONDETERMINISTIC: they issue any ops of the configured        *)
(* alphabet, so TLC enumerates every program within the bounds.  With      *)
(* Scripted = TRUE the ops are read from `Prog` instead (conformance).     *)
(*                                                                         *)
(* Code anchors are given as [file:function].                              *)
(***************************************************************************)
EXTENDS Props

CONSTANTS
    NSys,        \* pre-spawned system commands 1..NSys
    NOnce,       \* slots for one-off reactors NSys+1..NSys+NOnce
    NW,          \* world reactors (0..2): systems NSys+NOnce+1..          [world_reactor.rs]
    NER,         \* entity world reactors (0..1): system NSys+NOnce+NW+1   [entity_world_reactor.rs]
    NEnt,        \* pre-spawned plain entities 1..NEnt
    Hier,        \* entities 1..Hier form a parent chain (e + 1 is the child of e); 0 or 1 = no hierarchy   [bevy_hierarchy]
    NTy,         \* tag types per family (1 or 2)
    NVal,        \* component / resource values 1..NVal
    OpNames,     \* op alphabet of free bodies
    Bundles,     \* trigger bundles usable by reg / once
    Modes,       \* reactor modes usable by reg
    MaxOps,      \* ops per driver step
    BodyOps,     \* ops per body (0: bodies issue nothing - programs are driver sequences only)
    FinalStep,   \* "" or a step kind ("gc", "poll", "clear") that ends every behaviour
    Budget,      \* total ops over the behaviour (after the init step)
    MaxSteps,    \* driver steps (including the init step)
    InitOps,     \* ops of the first driver step
    RcSys,       \* pre-spawned systems created with spawn_rc_system_command: the driver holds their AutoDespawnSignal (op rcdrop)
    Excl,        \* pre-spawned systems that are exclusive (`&mut World`) systems: no accessor params, ops through world.commands()
    AppRegs,     \* reactors registered at start-up with App::add_reactor (one bundle each, persistent): systems after the world reactors
    StepKinds,   \* subset of {"ops","frame","direct","gc","poll","clear"}
    Features,    \* subset of {"err","notake","take2","coarse"}
    Defects,     \* subset of {"swap_remove","nested_first","insert_dead"} : re-introduced defects
    Mutants,     \* model mutants for monitor sensitivity (see MC*.cfg)
    Scripted     \* TRUE: take ops from the program stored in the world (w.prog = [steps, scripts]); see TraceConf.tla

VARIABLES w, out
cvars == <<w, out>>

NApp == Len(AppRegs)
Sys == 1..(NSys + NOnce + NW + NER + NApp)
WSysC(i) == NSys + NOnce + i
EWSysC == NSys + NOnce + NW + 1
AppSysC(i) == NSys + NOnce + NW + NER + i
WorldSys == (NSys + NOnce + 1)..(NSys + NOnce + NW + NER + NApp)       \* world reactors, entity world reactor, app reactors
Ents == 1..NEnt
Tys == 1..NTy

----------------------------------------------------------------------------
(* small helpers *)

SeqOfSet(S) == IF S = {} THEN <<>> ELSE
    LET RECURSIVE so(_)
        so(T) == IF T = {} THEN <<>> ELSE LET x == CHOOSE x \in T : \A y \in T : x <= y IN <<x>> \o so(T \ {x})
    IN so(S)
Cat(ss) == FoldSeq(LAMBDA a, b : a \o b, <<>>, ss)
MapSeq(s, F(_)) == [ i \in DOMAIN s |-> F(s[i]) ]

Cmd0 == [c |-> "", s |-> 0, e |-> 0, ty |-> 0, p |-> 0, d |-> 0, h |-> 0, rk |-> "", kind |-> "", r |-> 0, i |-> 0, op |-> <<>>, ret |-> 0, k |-> 0]

----------------------------------------------------------------------------
(* initial world *)

WInit0 ==
    [ alive |-> (1..NSys) \cup WorldSys, aliveE |-> Ents, spawned |-> {},
      storage |-> [ s \in Sys |-> IF s <= NSys \/ s \in WorldSys THEN "idle" ELSE "absent" ],
      elocal |-> [ e \in Ents |-> 0 ], hasER |-> {},
      reg |-> <<>>,                 \* [s, kd, ty, e, h] in registration order      [react_cache.rs, utils.rs:EntityReactors]
      rc |-> <<>>, hs |-> <<>>, nextH |-> 1,   \* handle instance -> strong count / system         [auto_despawn.rs]
      gcChan |-> <<>>,
      trk |-> {}, despChan |-> <<>>,                                              \* [reaction_triggers_impl.rs:DespawnTracker]
      tracked |-> <<>>, cursor |-> [ c \in 1..2 |-> 0 ],
      remLog |-> [ c \in 1..2 |-> <<>> ],      \* retained removal events [e, age]; age 1 = survived one clear_trackers
      remBase |-> [ c \in 1..2 |-> 0 ],        \* number of events already dropped (absolute index of remLog[c][1] minus 1)
      comp |-> [ k \in Ents \X (1..2) |-> 0 ], res |-> [ r \in 1..2 |-> 0 ],
      data |-> <<>>,                \* d -> [kind, ty, e, p, count, live, taken]
      ev |-> [reacting |-> FALSE, cur |-> 0, prepared |-> <<>>],                  \* [event_readers.rs]
      se |-> [reacting |-> FALSE, cur |-> 0, prepared |-> <<>>],                  \* [system_event_reader.rs]
      er |-> [reacting |-> FALSE, sys |-> 0, src |-> 0, rk |-> "", rt |-> 0, prepared |-> <<>>],  \* [entity_reaction_readers.rs]
      ds |-> [reacting |-> FALSE, src |-> 0, h |-> 0, held |-> FALSE, prepared |-> <<>>],         \* [despawn_reader.rs]
      pendcl |-> "",                \* reader cleanup of a running exclusive system, queued on the world's command queue and not yet flushed
      counter |-> 0, buffered |-> <<>>,                                           \* [syscommand_runner.rs, command_queue.rs]
      stack |-> <<>>,
      runs |-> [ s \in Sys |-> 0 ],
      nextK |-> 1, nextD |-> 1, nextP |-> 1, nextTok |-> 1, nextR |-> 1,
      budget |-> Budget, step |-> 0,
      tok |-> <<>>, oncetok |-> <<>>, armed |-> {},
      sysmode |-> [ s \in Sys |-> IF s \in RcSys THEN 1 ELSE 0 ], regd |-> {}, onceUsed |-> 0, rcheld |-> RcSys,
      prog |-> [steps |-> <<>>, scripts |-> <<>>] ]

CfgRec == [t |-> "cfg", nsys |-> NSys, nonce |-> NOnce, nent |-> NEnt, nworld |-> NW, neworld |-> NER, hier |-> Hier,
           app |-> AppRegs, appsys |-> NApp, rcsys |-> SeqOfSet(RcSys),
           kinds |-> [ i \in 1..NSys |-> IF i \in Excl THEN "excl" ELSE "plain" ]]

----------------------------------------------------------------------------
(* handles, garbage collection                                     [auto_despawn.rs] *)

DecH(x, h) ==
    IF h = 0 THEN x
    ELSE IF x.rc[h] = 1 THEN [x EXCEPT !.rc[h] = 0, !.gcChan = Append(@, x.hs[h])]
    ELSE [x EXCEPT !.rc[h] = @ - 1]

DecAll(x, hseq) == FoldSeq(DecH, x, hseq)

(* despawn of a system entity: its stored callback (and the canary it captured) is dropped unless it is running *)
KillSysW(x, s) ==
    IF s \notin x.alive THEN [w |-> x, out |-> <<>>]
    ELSE LET idle == x.storage[s] = "idle"
         IN [w |-> [x EXCEPT !.alive = @ \ {s}, !.storage[s] = IF idle THEN "absent" ELSE @],
             out |-> IF idle THEN << [t |-> "sysdrop", sys |-> s] >> ELSE <<>>]

(* garbage_collect_entities: receive one entity at a time until the channel is empty; despawning one may release  *)
(* handles and so put more entities on the channel.  Entries < 100 are systems, 100 + e are plain entities (their   *)
(* auto-despawn signal travelled in a payload).  KillEntW is defined below; the operator is passed in.              *)
GcLoop(x0, KillEnt(_, _)) ==
    LET RECURSIVE loop(_, _, _)
        loop(x, d, drops) ==
            IF Len(x.gcChan) = 0 THEN [w |-> x, d |-> d, drops |-> drops]
            ELSE LET h == Head(x.gcChan)
                     x1 == [x EXCEPT !.gcChan = Tail(@)]
                 IN IF h > 100
                    THEN IF (h - 100) \in x1.aliveE THEN loop(KillEnt(x1, h - 100), Append(d, h), drops) ELSE loop(x1, d, drops)
                    ELSE LET r == KillSysW(x1, h)
                         IN loop(r.w, IF h \in x1.alive THEN Append(d, h) ELSE d, drops \o r.out)
    IN loop(x0, <<>>, <<>>)

----------------------------------------------------------------------------
(* registration tables                                [react_commands.rs:register_reactors, reaction_triggers_impl.rs] *)

EffTrig(x, tr) == KeyOf(tr).e = 0 \/ KeyOf(tr).e \in x.aliveE

RegisterW(x, s, b, rcmode) ==
    LET h == IF rcmode THEN x.nextH ELSE 0
        eff == SelectSeq(b, LAMBDA tr : EffTrig(x, tr))
        ents == [ i \in 1..Len(eff) |-> [s |-> s, kd |-> KeyOf(eff[i]).kd, ty |-> KeyOf(eff[i]).ty, e |-> KeyOf(eff[i]).e, h |-> h] ]
        newtracked == FoldSeq(LAMBDA acc, tr : IF KeyOf(tr).kd \in {"rem", "erem"} /\ KeyOf(tr).ty \notin Range(acc) THEN Append(acc, KeyOf(tr).ty) ELSE acc,
                              x.tracked, b)
        x1 == [x EXCEPT !.reg = @ \o ents,
                        !.tracked = newtracked,
                        !.trk = @ \cup { KeyOf(eff[i]).e : i \in { j \in 1..Len(eff) : KeyOf(eff[j]).kd = "desp" } },
                        !.hasER = @ \cup { KeyOf(eff[i]).e : i \in { j \in 1..Len(eff) : KeyOf(eff[j]).kd \in EntKinds } }]
    IN IF ~rcmode THEN x1
       ELSE IF Len(eff) = 0
            THEN [x1 EXCEPT !.nextH = @ + 1, !.rc = Put(@, h, 0), !.hs = Put(@, h, s), !.gcChan = Append(@, s)]
            ELSE [x1 EXCEPT !.nextH = @ + 1, !.rc = Put(@, h, Len(eff)), !.hs = Put(@, h, s)]

(* [react_commands.rs:revoke_reactor]: type-wide tables lose the first entry of the system, EntityReactors lose all *)
(* App::add_reactor = ReactCommands::on_persistent at start-up: a fresh system per call, its bundle registered persistently *)
WInit == FoldSeq(LAMBDA x, i : RegisterW(x, AppSysC(i), AppRegs[i], FALSE), WInit0, [ i \in 1..NApp |-> i ])

RevokeOneW(x, s, tr) ==
    LET k == KeyOf(tr)
        hit(y) == y.s = s /\ y.kd = k.kd /\ y.ty = k.ty /\ y.e = k.e
        gone == IF k.kd \in EntKinds THEN SelectSeq(x.reg, hit)
                ELSE LET i == FirstIdx(x.reg, hit) IN IF i = 0 THEN <<>> ELSE << x.reg[i] >>
        reg2 == IF k.kd \in EntKinds THEN SelectSeq(x.reg, LAMBDA y : ~hit(y)) ELSE RemoveFirst(x.reg, hit)
        neighbour == "revoke_neighbour" \in Mutants /\ k.kd \notin EntKinds
        reg3 == IF neighbour THEN RemoveFirst(x.reg, LAMBDA y : y.kd = k.kd /\ y.ty = k.ty /\ y.e = k.e) ELSE reg2
        gone3 == IF neighbour
                 THEN LET i == FirstIdx(x.reg, LAMBDA y : y.kd = k.kd /\ y.ty = k.ty /\ y.e = k.e) IN IF i = 0 THEN <<>> ELSE << x.reg[i] >>
                 ELSE gone
    IN DecAll([x EXCEPT !.reg = reg3], MapSeq(gone3, LAMBDA y : y.h))

RevokeW(x, s, b) == FoldSeq(LAMBDA acc, tr : RevokeOneW(acc, s, tr), x, b)

ListenersW(x, trig, ty, ent) ==
    (* entity-scoped entries first, then the type-wide list, each in registration order [react_cache.rs:schedule_*] *)
    LET scoped == SelectSeq(x.reg, LAMBDA y : y.kd \in EntKinds /\ Matches(y, trig, ty, ent))
        wide == SelectSeq(x.reg, LAMBDA y : y.kd \notin EntKinds /\ Matches(y, trig, ty, ent))
    IN scoped \o wide

(* despawn of a plain entity: components dropped (removal events), EntityReactors dropped (handles), tracker fires *)
KillEntW(x, e) ==
    IF e \notin x.aliveE THEN x
    ELSE LET gone == SelectSeq(x.reg, LAMBDA y : y.kd \in EntKinds /\ y.e = e)
             x1 == [x EXCEPT !.aliveE = @ \ {e},
                             !.reg = SelectSeq(@, LAMBDA y : ~(y.kd \in EntKinds /\ y.e = e)),
                             !.remLog = [ c \in 1..2 |-> IF x.comp[<<e, c>>] # 0 THEN Append(@[c], [e |-> e, age |-> 0]) ELSE @[c] ],
                             !.comp = [ k \in DOMAIN @ |-> IF k[1] = e THEN 0 ELSE @[k] ],
                             !.despChan = IF e \in x.trk THEN Append(@, e) ELSE @,
                             !.trk = @ \ {e}, !.elocal[e] = 0, !.hasER = @ \ {e}]
         IN DecAll(x1, MapSeq(gone, LAMBDA y : y.h))

(* despawn_recursive: the children listed by the entity first (depth-first), then the entity itself; a child that is   *)
(* already gone is skipped together with whatever hung below it          [bevy_hierarchy: despawn_with_children_recursive] *)
ChildOf(e) == IF e + 1 <= Hier /\ e + 1 <= NEnt THEN e + 1 ELSE 0
RECURSIVE KillEntRecW(_, _)
KillEntRecW(x, e) ==
    IF e \notin x.aliveE THEN x
    ELSE LET c == ChildOf(e) IN KillEntW(IF c # 0 THEN KillEntRecW(x, c) ELSE x, e)

GcW(x) ==
    LET res == IF "gc_flat" \in Mutants THEN GcLoop(x, KillEntW) ELSE GcLoop(x, KillEntRecW)
        skip == "gc_skip" \in Mutants
    IN IF skip THEN [w |-> x, out |-> << [t |-> "gc", d |-> <<>>, closed |-> 1] >>]
       ELSE [w |-> res.w, out |-> << [t |-> "gc", d |-> res.d, closed |-> 1] >> \o res.drops]

----------------------------------------------------------------------------
(* trackers: prepare on apply, start (first match by system) on setup, end on cleanup       [commands.rs:26-91] *)

TakeFirst(prep, s) ==
    (* returns [hit, rest]; the repaired code removes in place, the original used swap_remove *)
    LET i == FirstIdx(prep, LAMBDA y : y[1] = s)
    IN IF i = 0 THEN [hit |-> <<>>, rest |-> prep]
       ELSE IF "swap_remove" \in Defects /\ i < Len(prep)
            THEN [hit |-> prep[i], rest |-> [ j \in 1..(Len(prep) - 1) |-> IF j = i THEN prep[Len(prep)] ELSE prep[j] ]]
            ELSE [hit |-> prep[i], rest |-> RemoveAt(prep, i)]

(* data entity bookkeeping                                       [commands.rs:try_cleanup_data_entity] *)
DataDec(x, d) ==
    IF d = 0 \/ d \notin DOMAIN x.data \/ ~x.data[d].live THEN [w |-> x, out |-> <<>>]
    ELSE LET n == IF x.data[d].count > 0 THEN x.data[d].count - 1 ELSE 0
         IN IF n = 0
            THEN [w |-> [x EXCEPT !.data[d].count = 0, !.data[d].live = FALSE], out |-> << [t |-> "drop", p |-> x.data[d].p] >>]
            ELSE [w |-> [x EXCEPT !.data[d].count = n], out |-> <<>>]

DataKill(x, d) ==
    IF d = 0 \/ d \notin DOMAIN x.data \/ ~x.data[d].live THEN [w |-> x, out |-> <<>>]
    ELSE \* the payload (and an auto-despawn signal travelling in it) is released unless the reader took it
         [w |-> [x EXCEPT !.data[d].live = FALSE,
                          !.gcChan = IF ~x.data[d].taken /\ x.data[d].sig # 0 THEN Append(@, 100 + x.data[d].sig) ELSE @],
          out |-> IF x.data[d].taken THEN <<>> ELSE << [t |-> "drop", p |-> x.data[d].p] >>]

(* setup of command kind `kind` for system s *)
SetupW(x, kind, s) ==
    CASE kind = "sysev" ->
            LET r == TakeFirst(x.se.prepared, s)
            IN IF r.hit = <<>> THEN x ELSE [x EXCEPT !.se = [reacting |-> TRUE, cur |-> r.hit[2], prepared |-> r.rest]]
      [] kind = "bc" ->
            LET r == TakeFirst(x.ev.prepared, s)
            IN IF r.hit = <<>> THEN x ELSE [x EXCEPT !.ev = [reacting |-> TRUE, cur |-> r.hit[2], prepared |-> r.rest]]
      [] kind = "eev" ->
            LET r1 == TakeFirst(x.er.prepared, s)
                x1 == IF r1.hit = <<>> THEN x
                      ELSE [x EXCEPT !.er = [reacting |-> TRUE, sys |-> s, src |-> r1.hit[2], rk |-> r1.hit[3], rt |-> r1.hit[4], prepared |-> r1.rest]]
                r2 == TakeFirst(x1.ev.prepared, s)
            IN IF r2.hit = <<>> THEN x1 ELSE [x1 EXCEPT !.ev = [reacting |-> TRUE, cur |-> r2.hit[2], prepared |-> r2.rest]]
      [] kind = "ereact" ->
            LET r == TakeFirst(x.er.prepared, s)
            IN IF r.hit = <<>> THEN x
               ELSE [x EXCEPT !.er = [reacting |-> TRUE, sys |-> s, src |-> r.hit[2], rk |-> r.hit[3], rt |-> r.hit[4], prepared |-> r.rest]]
      [] kind = "desp" ->
            LET r == TakeFirst(x.ds.prepared, s)
            IN IF r.hit = <<>> THEN x
               ELSE \* a handle already held is replaced (dropped)
                    LET x1 == IF x.ds.held THEN DecH(x, x.ds.h) ELSE x
                    IN [x1 EXCEPT !.ds = [reacting |-> TRUE, src |-> r.hit[2], h |-> r.hit[3], held |-> TRUE, prepared |-> r.rest]]
      [] OTHER -> x

(* cleanup of command kind `kind`: returns [w, out] *)
CleanupW(x, kind) ==
    CASE kind = "sysev" ->
            LET x1 == [x EXCEPT !.se.reacting = FALSE] IN DataKill(x1, x.se.cur)
      [] kind = "bc" ->
            LET x1 == [x EXCEPT !.ev.reacting = FALSE] IN DataDec(x1, x.ev.cur)
      [] kind = "eev" ->
            LET x1 == [x EXCEPT !.er.reacting = IF "stale_er" \in Mutants THEN @ ELSE FALSE, !.ev.reacting = FALSE] IN DataDec(x1, x.ev.cur)
      [] kind = "ereact" -> [w |-> [x EXCEPT !.er.reacting = FALSE], out |-> <<>>]
      [] kind = "desp" ->
            LET x1 == IF x.ds.held THEN DecH(x, x.ds.h) ELSE x
            IN [w |-> [x1 EXCEPT !.ds.reacting = FALSE, !.ds.held = FALSE, !.ds.h = 0], out |-> <<>>]
      [] OTHER -> [w |-> x, out |-> <<>>]

(* the world's own command queue is flushed (World::flush, World::spawn, the end of EntityWorldMut::despawn, applying any  *)
(* other command queue): a pending cleanup of an exclusive system runs now                                               *)
TakePend(x) == IF x.pendcl = "" THEN [w |-> x, out |-> <<>>] ELSE CleanupW([x EXCEPT !.pendcl = ""], x.pendcl)

(* what the readers of a system show right now (canonical order: bc, ee, se, ins, mut, rem, desp) *)
ViewW(x, take) ==
    LET evd == x.ev.cur
        evok == x.ev.reacting /\ evd \in DOMAIN x.data /\ x.data[evd].live
        bc == IF evok /\ x.data[evd].kind = "bc" THEN << <<"bc", x.data[evd].ty, 0, x.data[evd].p>> >> ELSE <<>>
        ee == IF evok /\ x.data[evd].kind = "eev" THEN << <<"ee", x.data[evd].ty, x.data[evd].e, x.data[evd].p>> >> ELSE <<>>
        sed == x.se.cur
        seok == take /\ x.se.reacting /\ sed \in DOMAIN x.data /\ x.data[sed].live /\ ~x.data[sed].taken
        se == IF seok THEN << <<"se", 1, 0, x.data[sed].p>> >> ELSE <<>>
        erk(k) == IF x.er.reacting /\ x.er.rk = k THEN << <<k, x.er.rt, x.er.src, 0>> >> ELSE <<>>
        dsp == IF x.ds.reacting THEN << <<"desp", 0, x.ds.src, 0>> >> ELSE <<>>
    IN [view |-> bc \o ee \o se \o erk("ins") \o erk("mut") \o erk("rem") \o dsp,
        w |-> IF seok THEN [x EXCEPT !.data[sed].taken = TRUE, !.gcChan = IF x.data[sed].sig # 0 THEN Append(@, 100 + x.data[sed].sig) ELSE @] ELSE x,
        took |-> IF seok THEN << [t |-> "taken", p |-> x.data[sed].p], [t |-> "drop", p |-> x.data[sed].p] >> ELSE <<>>]

----------------------------------------------------------------------------
(* polling for removals and despawns            [utils.rs:schedule_removal_and_despawn_reactors, react_cache.rs:398-522] *)

RxCmd(kind, s, src, rk, rt, d, h) == [Cmd0 EXCEPT !.c = "rx", !.kind = kind, !.s = s, !.e = src, !.rk = rk, !.ty = rt, !.d = d, !.h = h]

PollW(x) ==
    LET \* removals: every tracked component, new events since this reader's cursor
        remstep(acc, c) ==
            LET from == IF acc.w.cursor[c] > acc.w.remBase[c] THEN acc.w.cursor[c] - acc.w.remBase[c] ELSE 0
                fresh == MapSeq(SubSeq(acc.w.remLog[c], from + 1, Len(acc.w.remLog[c])), LAMBDA ev : ev.e)
                one(a2, ent) ==
                    LET ls == ListenersW(a2.w, "rem", c, ent)
                    IN [w |-> a2.w,
                        out |-> Append(a2.out, [t |-> "sched", trig |-> "rem", ty |-> c, ent |-> ent, data |-> 0, reactors |-> MapSeq(ls, LAMBDA y : y.s)]),
                        q |-> a2.q \o MapSeq(ls, LAMBDA y : RxCmd("ereact", y.s, ent, "rem", c, 0, 0))]
                r == FoldSeq(one, acc, fresh)
            IN [r EXCEPT !.w = [r.w EXCEPT !.cursor[c] = acc.w.remBase[c] + Len(acc.w.remLog[c])]]
        a1 == FoldSeq(remstep, [w |-> x, out |-> <<>>, q |-> <<>>], IF "poll_skip_rem" \in Mutants THEN <<>> ELSE x.tracked)
        \* despawns: drain the channel
        despstep(acc, ent) ==
            LET ls == SelectSeq(acc.w.reg, LAMBDA y : y.kd = "desp" /\ y.e = ent)
            IN [w |-> [acc.w EXCEPT !.reg = SelectSeq(@, LAMBDA y : ~(y.kd = "desp" /\ y.e = ent))],
                out |-> Append(acc.out, [t |-> "sched", trig |-> "desp", ty |-> 0, ent |-> ent, data |-> 0, reactors |-> MapSeq(ls, LAMBDA y : y.s)]),
                q |-> acc.q \o MapSeq(ls, LAMBDA y : RxCmd("desp", y.s, ent, "", 0, 0, y.h))]
        \* mutant: the drain stops at the first despawned entity that has no reactors (the rest stays on the channel)
        firstUnwatched == FirstIdx(a1.w.despChan, LAMBDA ent : ~\E y \in Range(a1.w.reg) : y.kd = "desp" /\ y.e = ent)
        cut == IF "poll_stop_unwatched" \in Mutants /\ firstUnwatched # 0 THEN firstUnwatched ELSE Len(a1.w.despChan)
        a2 == FoldSeq(despstep, [a1 EXCEPT !.w = [a1.w EXCEPT !.despChan = SubSeq(@, cut + 1, Len(@))]], SubSeq(a1.w.despChan, 1, cut))
    IN [w |-> a2.w, out |-> << [t |-> "poll"] >> \o a2.out, q |-> a2.q]

QFrame(q, post) == [f |-> "q", q |-> q, post |-> post]
PushF(x, fr) == [x EXCEPT !.stack = Append(@, fr)]
PopF(x) == [x EXCEPT !.stack = SubSeq(@, 1, Len(@) - 1)]
TopF(x) == x.stack[Len(x.stack)]
SetTopF(x, fr) == [x EXCEPT !.stack[Len(x.stack)] = fr]

(* GC followed by the poll; the reactions found run in a queue frame closed by `pollend` *)
GcPoll(x, pre) ==
    LET g == GcW(x)
        \* a collection that despawns something ends with a flush; otherwise the poll's own flush comes after its dispatches
        c1 == IF Len(g.out[1].d) > 0 THEN TakePend(g.w) ELSE [w |-> g.w, out |-> <<>>]
        p == PollW(c1.w)
        c2 == TakePend(p.w)
    IN [w |-> PushF(c2.w, QFrame(p.q, << [t |-> "pollend"] >>)), out |-> pre \o g.out \o c1.out \o p.out \o c2.out]

PollOnly(x, pre) ==
    LET p == PollW(x)
    IN [w |-> PushF(p.w, QFrame(p.q, << [t |-> "pollend"] >>)), out |-> pre \o p.out]

----------------------------------------------------------------------------
(* dispatching a trigger: the `sched` record, the data entity, the reaction commands     [react_cache.rs:328-395,452-562] *)

DispatchW(x, trig, ty, ent, p) ==
    LET ls0 == ListenersW(x, trig, ty, ent)
        ls == IF "dispatch_skip_last" \in Mutants /\ Len(ls0) > 1 THEN SubSeq(ls0, 1, Len(ls0) - 1) ELSE ls0
        n == Len(ls)
        isev == trig \in {"bc", "eev"}
        d == IF isev /\ n > 0 THEN x.nextD ELSE 0
        cnt == IF "count_plus_one" \in Mutants THEN n + 1 ELSE n
        x1 == IF d # 0
              THEN [x EXCEPT !.nextD = @ + 1,
                             !.data = Put(@, d, [kind |-> trig, ty |-> ty, e |-> ent, p |-> p, count |-> cnt, live |-> TRUE, taken |-> FALSE, sig |-> 0])]
              ELSE x
        kind == CASE trig = "bc" -> "bc" [] trig = "eev" -> "eev" [] trig = "res" -> "res" [] OTHER -> "ereact"
        rk == IF trig \in {"ins", "mut", "rem"} THEN trig ELSE ""
        cmds == MapSeq(ls, LAMBDA y : RxCmd(kind, y.s, ent, rk, IF kind = "ereact" THEN ty ELSE 0, d, 0))
        rec == [t |-> "sched", trig |-> trig, ty |-> ty, ent |-> ent, data |-> d, reactors |-> MapSeq(ls, LAMBDA y : y.s)]
        dropnow == IF isev /\ n = 0 THEN << [t |-> "drop", p |-> p] >> ELSE <<>>
    IN [w |-> x1, out |-> <<rec>> \o dropnow, q |-> cmds]

----------------------------------------------------------------------------
(* applying one op (a queue item): `apply` marker, the op's own effect, its sub-commands, `done` marker *)

Targets(x) == (1..NSys) \cup x.spawned

OpEffect(x, op0, ret) ==
    LET op == NormOp(op0)
        n == op[1] IN
    CASE n = "run" -> [w |-> x, out |-> <<>>, q |-> << [Cmd0 EXCEPT !.c = "run", !.s = op[2]] >>]
      [] n = "sysev" -> [w |-> x, out |-> <<>>, q |-> << [Cmd0 EXCEPT !.c = "sysev", !.s = op[2], !.p = op[3]] >>]
      [] n = "sysevsig" -> [w |-> x, out |-> <<>>, q |-> << [Cmd0 EXCEPT !.c = "sysev", !.s = op[2], !.p = op[3], !.e = op[4]] >>]
      [] n = "bc" -> DispatchW(x, "bc", op[2], 0, op[3])
      [] n = "eev" -> DispatchW(x, "eev", op[3], op[2], op[4])
      [] n \in {"res", "resmut"} -> DispatchW(x, "res", op[2], 0, 0)
      [] n = "resset" -> IF ret # -1 \/ "set_always" \in Mutants THEN DispatchW(x, "res", op[2], 0, 0) ELSE [w |-> x, out |-> <<>>, q |-> <<>>]
      [] n = "ins" ->
            IF ret # 1 THEN [w |-> x, out |-> <<>>, q |-> <<>>]
            ELSE IF op[2] \in x.aliveE
                 THEN DispatchW([x EXCEPT !.comp[<<op[2], op[3]>>] = op[4]], "ins", op[3], op[2], 0)
                 ELSE IF "insert_dead" \in Defects THEN DispatchW(x, "ins", op[3], op[2], 0)
                      ELSE [w |-> x, out |-> <<>>, q |-> <<>>]
      [] n = "mut" -> IF ret = 1 THEN DispatchW(x, "mut", op[3], op[2], 0) ELSE [w |-> x, out |-> <<>>, q |-> <<>>]
      [] n = "set" -> IF ret # -1 \/ "set_always" \in Mutants THEN DispatchW(x, "mut", op[3], op[2], 0) ELSE [w |-> x, out |-> <<>>, q |-> <<>>]
      [] n = "trig" -> DispatchW(x, "mut", op[3], op[2], 0)
      [] n = "rm" ->
            IF ret = 1 /\ op[2] \in x.aliveE /\ x.comp[<<op[2], op[3]>>] # 0
            THEN [w |-> [x EXCEPT !.comp[<<op[2], op[3]>>] = 0, !.remLog[op[3]] = Append(@, [e |-> op[2], age |-> 0])], out |-> <<>>, q |-> <<>>]
            ELSE [w |-> x, out |-> <<>>, q |-> <<>>]
      [] n = "desp" -> [w |-> IF ret = 1 THEN KillEntW(x, op[2]) ELSE x, out |-> <<>>, q |-> <<>>]
      [] n = "desprec" -> [w |-> IF ret = 1 THEN KillEntRecW(x, op[2]) ELSE x, out |-> <<>>, q |-> <<>>]
      \* direct world access from a queued closure: the entity is looked up when the command is applied
      [] n = "xdesp" -> [w |-> KillEntW(x, op[2]), out |-> <<>>, q |-> <<>>]
      [] n = "xdesprec" -> [w |-> KillEntRecW(x, op[2]), out |-> <<>>, q |-> <<>>]
      [] n = "xrm" ->
            IF op[2] \in x.aliveE /\ x.comp[<<op[2], op[3]>>] # 0
            THEN [w |-> [x EXCEPT !.comp[<<op[2], op[3]>>] = 0, !.remLog[op[3]] = Append(@, [e |-> op[2], age |-> 0])], out |-> <<>>, q |-> <<>>]
            ELSE [w |-> x, out |-> <<>>, q |-> <<>>]
      [] n = "despsys" ->
            IF ret = 1 THEN LET r == KillSysW(x, op[2]) IN [w |-> r.w, out |-> r.out, q |-> <<>>]
            ELSE [w |-> x, out |-> <<>>, q |-> <<>>]
      [] n = "reg" -> [w |-> RegisterW(x, op[3], op[4], op[2] # "persistent"), out |-> <<>>, q |-> <<>>]
      [] n = "once" ->
            LET x1 == [x EXCEPT !.alive = @ \cup {op[2]}, !.spawned = @ \cup {op[2]}, !.storage[op[2]] = "idle", !.armed = @ \cup {op[2]}]
            IN [w |-> RegisterW(x1, op[2], op[3], TRUE), out |-> <<>>, q |-> <<>>]
      \* ReactCommands::on / on_persistent / on_revokable: spawn a fresh system command, then register the bundle for it
      [] n = "on" ->
            LET x1 == [x EXCEPT !.alive = @ \cup {op[3]}, !.spawned = @ \cup {op[3]}, !.storage[op[3]] = "idle"]
            IN [w |-> RegisterW(x1, op[3], op[4], op[2] # "persistent"), out |-> <<>>, q |-> <<>>]
      [] n = "revoke" -> [w |-> RevokeW(x, x.tok[op[2]].s, x.tok[op[2]].b), out |-> <<>>, q |-> <<>>]
      [] n = "probe" -> [w |-> x, out |-> <<>>, q |-> <<>>]
      [] n = "wadd" -> [w |-> RegisterW(x, WSysC(op[2]), op[3], FALSE), out |-> <<>>, q |-> <<>>]
      [] n = "wrem" -> [w |-> RevokeW(x, WSysC(op[2]), op[3]), out |-> <<>>, q |-> <<>>]
      [] n = "wrun" -> [w |-> x, out |-> <<>>, q |-> << [Cmd0 EXCEPT !.c = "run", !.s = WSysC(op[2])] >>]
      [] n = "eadd" ->
            IF ret # 1 THEN [w |-> x, out |-> <<>>, q |-> <<>>]
            ELSE LET x1 == IF op[3] \in x.aliveE THEN [x EXCEPT !.elocal[op[3]] = op[4]] ELSE x
                 IN [w |-> RegisterW(x1, EWSysC, << <<"emut", op[3], 1>>, <<"eev", op[3], 1>>, <<"erem", op[3], 1>> >>, FALSE), out |-> <<>>, q |-> <<>>]
      [] n = "erem" ->
            (* revoke, then drop the local data of every entity named that no longer tracks this reactor [cleanup_reactor_data] *)
            LET x1 == RevokeW(x, EWSysC, op[3])
                ents == { KeyOf(op[3][i]).e : i \in DOMAIN op[3] } \ {0}
                keep(e) == \E y \in Range(x1.reg) : y.s = EWSysC /\ y.kd \in EntKinds /\ y.e = e
                inv == "ew_cleanup_inverted" \in Mutants
            IN [w |-> [x1 EXCEPT !.elocal = [ e \in DOMAIN @ |->
                            IF e \in ents /\ e \in x1.aliveE /\ e \in x1.hasER /\ (IF inv THEN keep(e) ELSE ~keep(e)) THEN 0 ELSE @[e] ]],
                out |-> <<>>, q |-> <<>>]
      [] OTHER -> [w |-> x, out |-> <<>>, q |-> <<>>]

ExecOp(x0, it) ==
    LET n0 == it.op[1]
        \* World::send_system_event spawns the data entity first (World::spawn flushes); World::broadcast / entity_event dispatch in a
        \* cached system and flush when its command queue is applied; SystemCommand::apply flushes in the runner's entry poll
        pre == IF n0 = "isysev" THEN TakePend(x0) ELSE [w |-> x0, out |-> <<>>]
        x == pre.w
        ef0 == OpEffect(x, it.op, it.ret)
        post == IF n0 \in {"ibc", "ieev"} THEN TakePend(ef0.w) ELSE [w |-> ef0.w, out |-> <<>>]
        ef == [w |-> post.w, out |-> pre.out \o ef0.out \o post.out, q |-> ef0.q]
        pr == IF it.op[1] = "probe"
              THEN LET v == ViewW(ef.w, TRUE) IN [w |-> v.w, out |-> << [t |-> "probe", r |-> it.r, i |-> it.i, view |-> v.view] >> \o v.took]
              ELSE [w |-> ef.w, out |-> <<>>]
    IN [w |-> PushF(pr.w, QFrame(ef.q, << [t |-> "done", r |-> it.r, i |-> it.i] >>)),
        out |-> << [t |-> "apply", r |-> it.r, i |-> it.i] >> \o ef.out \o pr.out]

(* Command::apply of a system command / system event / reaction command: `cmd` record, prepare, enter the runner *)
ExecCmd(x, c) ==
    LET kind == IF c.c = "rx" THEN c.kind ELSE c.c
        \* the data entity of a system event is spawned by the command queued just before the event command
        d == IF c.c = "sysev" THEN x.nextD ELSE c.d
        x0 == IF c.c = "sysev"
              THEN [x EXCEPT !.nextD = @ + 1, !.data = Put(@, d, [kind |-> "sysev", ty |-> 1, e |-> 0, p |-> c.p, count |-> 1, live |-> TRUE, taken |-> FALSE, sig |-> c.e])]
              ELSE x
        x1 == CASE kind = "sysev" -> [x0 EXCEPT !.se.prepared = Append(@, <<c.s, d>>)]
                [] kind = "bc" -> [x0 EXCEPT !.ev.prepared = Append(@, <<c.s, d>>)]
                [] kind = "eev" -> [x0 EXCEPT !.er.prepared = Append(@, <<c.s, c.e, "eev", 0>>), !.ev.prepared = Append(@, <<c.s, d>>)]
                [] kind = "ereact" -> [x0 EXCEPT !.er.prepared = Append(@, <<c.s, c.e, c.rk, c.ty>>)]
                [] kind = "desp" -> [x0 EXCEPT !.ds.prepared = Append(@, <<c.s, c.e, c.h>>)]
                [] OTHER -> x0
        k == x.nextK
        rec == [t |-> "cmd", kind |-> kind, sys |-> c.s, src |-> IF kind \in {"eev", "ereact", "desp"} THEN c.e ELSE 0,
                rk |-> IF kind = "ereact" THEN c.rk ELSE "", rt |-> IF kind = "ereact" THEN c.ty ELSE 0,
                data |-> IF kind \in {"sysev", "bc", "eev"} THEN d ELSE 0]
        fr == [f |-> "r", k |-> k, s |-> c.s, kind |-> kind, idx |-> 0, pc |-> "enter", r |-> 0, ops |-> <<>>, started |-> FALSE, nt |-> 0, t2 |-> 0, cleaned |-> FALSE]
    IN [w |-> PushF([x1 EXCEPT !.nextK = @ + 1], fr), out |-> <<rec>>]

----------------------------------------------------------------------------
(* the runner                                                               [syscommand_runner.rs:73-186] *)

BufEntry(fr) == [k |-> fr.k, s |-> fr.s, kind |-> fr.kind]

(* cleanup_on_abort: setup, cleanup, GC, poll *)
AbortPath(x, kind, s, pre) ==
    LET x1 == IF "abort_no_setup" \in Mutants THEN x ELSE SetupW(x, kind, s)
        cl == IF "abort_no_cleanup" \in Mutants THEN [w |-> x1, out |-> <<>>] ELSE CleanupW(x1, kind)
    IN IF "abort_poll_first" \in Mutants
       THEN \* mutant: the poll runs before the collection, so what the collection despawns is found by nobody in this tree
            LET p == PollW(cl.w)
                g == GcW(p.w)
            IN [w |-> PushF(g.w, QFrame(p.q, << [t |-> "pollend"] >>)), out |-> pre \o cl.out \o p.out \o g.out]
       ELSE GcPoll(cl.w, pre \o cl.out)

REnter(x, fr) ==
    (* :80-84 *)
    LET x1 == SetTopF(x, [fr EXCEPT !.idx = x.counter, !.pc = "extract"])
        \* the poll pushes its queue frame on top of this runner frame
    IN GcPoll(x1, << [t |-> "enter", k |-> fr.k, sys |-> fr.s, idx |-> x.counter] >>)

RExtract(x, fr) ==
    (* :86-120 *)
    IF fr.s \notin x.alive
    THEN LET x1 == SetTopF(x, [fr EXCEPT !.pc = "exit"])
         IN AbortPath(x1, fr.kind, fr.s, << [t |-> "abort", k |-> fr.k, why |-> "despawned"] >>)
    ELSE IF x.storage[fr.s] # "idle"
    THEN IF fr.idx = 0 \/ ("postpone_off_by_one" \in Mutants /\ fr.idx <= 1)
         THEN LET x1 == SetTopF(x, [fr EXCEPT !.pc = "exit"])
              IN AbortPath(x1, fr.kind, fr.s, << [t |-> "abort", k |-> fr.k, why |-> "nocallback"] >>)
         ELSE [w |-> PopF([x EXCEPT !.buffered = Append(@, BufEntry(fr))]),
               out |-> << [t |-> "postpone", k |-> fr.k], [t |-> "exit", k |-> fr.k] >>]
    ELSE LET x1 == [x EXCEPT !.counter = @ + 1, !.storage[fr.s] = "taken"]
             x2 == SetupW(x1, fr.kind, fr.s)
         IN [w |-> SetTopF(x2, [fr EXCEPT !.pc = "body"]), out |-> << [t |-> "take", k |-> fr.k] >>]

(* the once wrapper: despawn itself, revoke its own token                [react_commands.rs:319-349] *)
OncePost(x, s) ==
    IF s \notin x.armed THEN [w |-> x, out |-> <<>>]
    ELSE LET wasalive == s \in x.alive
             \* the callback is running, so despawning the entity drops nothing
             x1 == [x EXCEPT !.alive = @ \ {s}, !.armed = @ \ {s}]
             x2 == IF "once_no_revoke" \in Mutants THEN x1 ELSE RevokeW(x1, s, x.oncetok[s])
         IN [w |-> x2, out |-> << [t |-> "oncedespawn", sys |-> s, alive |-> IF wasalive THEN 1 ELSE 0], [t |-> "sysdrop", sys |-> s] >>]

RPost(x, fr) ==
    (* :123-153: after the body's commands: once wrapper, GC, reinsert or drop the callback, poll *)
    LET isonce == fr.s \in DOMAIN x.oncetok
        o == OncePost(x, fr.s)
        g1 == GcW(o.w)
        x1 == g1.w
        alive == fr.s \in x1.alive
        fin == IF alive
               THEN [w |-> [x1 EXCEPT !.storage[fr.s] = "idle"], out |-> << [t |-> "reinsert", sys |-> fr.s] >>]
               ELSE LET x2 == [x1 EXCEPT !.storage[fr.s] = "absent"]
                        g2 == GcW(x2)
                    IN [w |-> g2.w,
                        out |-> (IF isonce THEN <<>> ELSE << [t |-> "sysdrop", sys |-> fr.s] >>) \o << [t |-> "dropcb", sys |-> fr.s] >> \o g2.out]
        x3 == SetTopF(fin.w, [fr EXCEPT !.pc = "replay"])
    IN PollOnly(x3, o.out \o g1.out \o fin.out)

RReplay(x, fr) ==
    (* :155-172: deferred commands of this system, oldest first *)
    LET i == IF "nested_first" \in Defects \/ "replay_newest" \in Mutants
             THEN LET js == { j \in DOMAIN x.buffered : x.buffered[j].s = fr.s } IN IF js = {} THEN 0 ELSE CHOOSE j \in js : \A j2 \in js : j >= j2
             ELSE FirstIdx(x.buffered, LAMBDA b : b.s = fr.s)
        stop == "replay_once" \in Mutants /\ fr.started
        \* mutant: deferred commands of a system that is gone are dropped silently (no abort path: nothing is released)
        skipdead == "replay_skip_dead" \in Mutants /\ i # 0 /\ fr.s \notin x.alive
    IN IF skipdead THEN [w |-> [x EXCEPT !.buffered = RemoveAt(@, i)], out |-> <<>>] ELSE
       IF i = 0 \/ stop
       THEN [w |-> SetTopF(x, [fr EXCEPT !.pc = "final"]), out |-> <<>>]
       ELSE LET b == x.buffered[i]
                nf == [f |-> "r", k |-> b.k, s |-> b.s, kind |-> b.kind, idx |-> 0, pc |-> "enter", r |-> 0, ops |-> <<>>, started |-> FALSE, nt |-> 0, t2 |-> 0, cleaned |-> FALSE]
                x1 == SetTopF([x EXCEPT !.buffered = RemoveAt(@, i)], [fr EXCEPT !.started = TRUE])
            IN [w |-> PushF(x1, nf), out |-> << [t |-> "replay", k |-> b.k] >>]

RFinal(x, fr) ==
    (* :175-186 *)
    IF fr.idx = 0 /\ Len(x.buffered) > 0 /\ "no_discard" \notin Mutants
    THEN LET b == x.buffered[1]
             x1 == [x EXCEPT !.buffered = Tail(@)]
         IN AbortPath(x1, b.kind, b.s, << [t |-> "discard", k |-> b.k] >>)
    ELSE LET x1 == IF fr.idx = 0 /\ "no_counter_reset" \notin Mutants THEN [x EXCEPT !.counter = 0] ELSE x
         IN [w |-> PopF(x1), out |-> << [t |-> "exit", k |-> fr.k] >>]

----------------------------------------------------------------------------
(* bodies: free (any op of the alphabet) or scripted *)

IssueRec(r, i, op, ret) == [t |-> "issue", r |-> r, i |-> i, op |-> op, ret |-> ret]

(* queue-time effect and return value of op [react_component.rs, react_resource.rs, react_commands.rs:insert] *)
Holders(x, c) == { e \in Ents : e \in x.aliveE /\ x.comp[<<e, c>>] # 0 }
IssueW(x, op0) ==
    LET op == NormOp(op0)
        n == op[1] IN
    \* the single-entity accessors are only called when exactly this entity carries the component (else the op is skipped)
    IF op0[1] \in {"smut", "sset", "sno"} /\ Holders(x, op0[3]) # {op0[2]} THEN [w |-> x, ret |-> -9] ELSE
    CASE n \in {"sysev", "sysevsig"} -> [w |-> [x EXCEPT !.nextP = IF op[3] >= @ THEN op[3] + 1 ELSE @], ret |-> 0]
      [] n = "bc" -> [w |-> [x EXCEPT !.nextP = IF op[3] >= @ THEN op[3] + 1 ELSE @], ret |-> 0]
      [] n = "eev" -> [w |-> [x EXCEPT !.nextP = IF op[4] >= @ THEN op[4] + 1 ELSE @], ret |-> 0]
      [] n = "ins" -> [w |-> x, ret |-> IF op[2] \in x.aliveE THEN 1 ELSE 0]
      [] n \in {"mut", "noreact"} ->
            IF x.comp[<<op[2], op[3]>>] # 0 THEN [w |-> [x EXCEPT !.comp[<<op[2], op[3]>>] = op[4]], ret |-> 1] ELSE [w |-> x, ret |-> -1]
      \* the harness' component and resource types compare equal when their values agree modulo 100 (a PartialEq coarser than identity):
      \* set_if_neq must neither store nor trigger for an equal but distinguishable value
      [] n = "set" ->
            LET cur == x.comp[<<op[2], op[3]>>]
            IN IF cur # 0 /\ (cur % 100) # (op[4] % 100) THEN [w |-> [x EXCEPT !.comp[<<op[2], op[3]>>] = op[4]], ret |-> cur] ELSE [w |-> x, ret |-> -1]
      [] n \in {"resmut", "resno"} -> [w |-> [x EXCEPT !.res[op[2]] = op[3]], ret |-> 0]
      [] n = "resset" ->
            LET cur == x.res[op[2]]
            IN IF (cur % 100) # (op[3] % 100) THEN [w |-> [x EXCEPT !.res[op[2]] = op[3]], ret |-> cur] ELSE [w |-> x, ret |-> -1]
      [] n \in {"rm", "desp", "desprec"} -> [w |-> x, ret |-> IF op[2] \in x.aliveE THEN 1 ELSE 0]
      [] n \in {"xrm", "xdesp", "xdesprec"} -> [w |-> x, ret |-> 1]
      [] n = "despsys" -> [w |-> x, ret |-> IF op[2] \in x.alive THEN 1 ELSE 0]
      \* dropping the signal of a reference-counted system command takes effect at once: the entity is sent to the collector
      [] n = "rcdrop" -> IF op[2] \in x.rcheld THEN [w |-> [x EXCEPT !.rcheld = @ \ {op[2]}, !.gcChan = Append(@, op[2])], ret |-> 1]
                         ELSE [w |-> x, ret |-> 0]
      [] n = "reg" ->
            [w |-> [x EXCEPT !.tok = IF op[5] > 0 THEN Put(@, op[5], [s |-> op[3], b |-> op[4]]) ELSE @,
                             !.nextTok = IF op[5] >= @ THEN op[5] + 1 ELSE @,
                             !.sysmode[op[3]] = IF op[2] = "persistent" THEN 1 ELSE 2,
                             !.regd = @ \cup { <<op[3], op[4][j]>> : j \in DOMAIN op[4] }], ret |-> 0]
      [] n \in {"wadd"} -> [w |-> [x EXCEPT !.regd = @ \cup { <<WSysC(op[2]), op[3][j]>> : j \in DOMAIN op[3] }], ret |-> 1]
      [] n \in {"wrem", "wrun", "erem"} -> [w |-> x, ret |-> 1]
      [] n = "eadd" -> [w |-> [x EXCEPT !.regd = @ \cup {<<EWSysC, <<"emut", op[3], 1>>>>}], ret |-> IF op[3] \in x.aliveE THEN 1 ELSE 0]
      [] n = "setlocal" ->
            LET ok == x.er.reacting /\ x.er.sys = EWSysC /\ x.er.src \in Ents /\ x.elocal[x.er.src] # 0
            IN IF ok THEN [w |-> [x EXCEPT !.elocal[x.er.src] = op[2]], ret |-> 1] ELSE [w |-> x, ret |-> 0]
      [] n = "on" ->
            [w |-> [x EXCEPT !.tok = IF op[5] > 0 THEN Put(@, op[5], [s |-> op[3], b |-> op[4]]) ELSE @,
                             !.nextTok = IF op[5] >= @ THEN op[5] + 1 ELSE @, !.onceUsed = @ + 1], ret |-> 0]
      [] n = "once" ->
            [w |-> [x EXCEPT !.tok = Put(@, op[4], [s |-> op[2], b |-> op[3]]), !.oncetok = Put(@, op[2], op[3]),
                             !.nextTok = IF op[4] >= @ THEN op[4] + 1 ELSE @, !.onceUsed = @ + 1], ret |-> 0]
      [] OTHER -> [w |-> x, ret |-> 0]

(* the ops a free body may issue next; `go(op)` is the continuation *)
EBundles(e) == { << <<"emut", e, 1>> >>, << <<"eev", e, 1>> >>, << <<"erem", e, 1>> >>, << <<"emut", e, 1>>, <<"eev", e, 1>> >>,
                 << <<"emut", e, 1>>, <<"eev", e, 1>>, <<"erem", e, 1>> >> }
SetVals == IF "coarse" \in Features THEN (1..NVal) \cup { 100 + v : v \in 1..NVal } ELSE 1..NVal
DirectOps == {"xrm", "xdesp", "xdesprec", "xbc", "xeev", "xsysev", "xres"}
NeedAccess == {"resmut", "resset", "resno", "mut", "set", "noreact", "wadd", "wrem", "wrun", "eadd", "erem", "sysevsig", "smut", "sset", "sno"}
FreeOp(x, cur, OpNames_, go(_)) ==
    \/ "run" \in OpNames_ /\ \E s \in Targets(x) : go(<<"run", s>>)
    \/ "sysev" \in OpNames_ /\ \E s \in Targets(x) : go(<<"sysev", s, x.nextP>>)
    \/ "sysevsig" \in OpNames_ /\ \E s \in Targets(x), e \in Ents : go(<<"sysevsig", s, x.nextP, e>>)
    \/ "bc" \in OpNames_ /\ \E t \in Tys : go(<<"bc", t, x.nextP>>)
    \/ "eev" \in OpNames_ /\ \E e \in Ents, t \in Tys : go(<<"eev", e, t, x.nextP>>)
    \/ "res" \in OpNames_ /\ \E t \in Tys : go(<<"res", t>>)
    \/ "resmut" \in OpNames_ /\ \E t \in Tys, v \in 1..NVal : go(<<"resmut", t, v>>)
    \/ "resset" \in OpNames_ /\ \E t \in Tys, v \in SetVals : go(<<"resset", t, v>>)
    \/ "resno" \in OpNames_ /\ \E t \in Tys, v \in 1..NVal : go(<<"resno", t, v>>)
    \/ "ins" \in OpNames_ /\ \E e \in Ents, t \in Tys, v \in 1..NVal : go(<<"ins", e, t, v>>)
    \/ "mut" \in OpNames_ /\ \E e \in Ents, t \in Tys, v \in 1..NVal : go(<<"mut", e, t, v>>)
    \/ "set" \in OpNames_ /\ \E e \in Ents, t \in Tys, v \in SetVals : go(<<"set", e, t, v>>)
    \/ "noreact" \in OpNames_ /\ \E e \in Ents, t \in Tys, v \in 1..NVal : go(<<"noreact", e, t, v>>)
    \/ "trig" \in OpNames_ /\ \E e \in Ents, t \in Tys : go(<<"trig", e, t>>)
    \/ "rm" \in OpNames_ /\ \E e \in Ents, t \in Tys : go(<<"rm", e, t>>)
    \/ "desp" \in OpNames_ /\ \E e \in Ents : go(<<"desp", e>>)
    \/ "desprec" \in OpNames_ /\ \E e \in Ents : go(<<"desprec", e>>)
    \/ "xdesp" \in OpNames_ /\ \E e \in Ents : go(<<"xdesp", e>>)
    \/ "xdesprec" \in OpNames_ /\ \E e \in Ents : go(<<"xdesprec", e>>)
    \/ "xrm" \in OpNames_ /\ \E e \in Ents, t \in Tys : go(<<"xrm", e, t>>)
    \/ "xsysev" \in OpNames_ /\ \E s \in Targets(x) : go(<<"xsysev", s, x.nextP>>)
    \/ "xbc" \in OpNames_ /\ \E t \in Tys : go(<<"xbc", t, x.nextP>>)
    \/ "xres" \in OpNames_ /\ \E t \in Tys : go(<<"xres", t>>)
    \/ "xeev" \in OpNames_ /\ \E e \in Ents, t \in Tys : go(<<"xeev", e, t, x.nextP>>)
    \/ "irun" \in OpNames_ /\ \E s \in Targets(x) : go(<<"irun", s>>)
    \/ "isysev" \in OpNames_ /\ \E s \in Targets(x) : go(<<"isysev", s, x.nextP>>)
    \/ "ibc" \in OpNames_ /\ \E t \in Tys : go(<<"ibc", t, x.nextP>>)
    \/ "ieev" \in OpNames_ /\ \E e \in Ents, t \in Tys : go(<<"ieev", e, t, x.nextP>>)
    \/ "smut" \in OpNames_ /\ \E e \in Ents, t \in Tys, v \in 1..NVal : Holders(x, t) = {e} /\ go(<<"smut", e, t, v>>)
    \/ "sset" \in OpNames_ /\ \E e \in Ents, t \in Tys, v \in SetVals : Holders(x, t) = {e} /\ go(<<"sset", e, t, v>>)
    \/ "sno" \in OpNames_ /\ \E e \in Ents, t \in Tys, v \in 1..NVal : Holders(x, t) = {e} /\ go(<<"sno", e, t, v>>)
    \/ "despsys" \in OpNames_ /\ \E s \in Targets(x) : go(<<"despsys", s>>)
    \/ "rcdrop" \in OpNames_ /\ \E s \in RcSys : go(<<"rcdrop", s>>)
    \/ "reg" \in OpNames_ /\ \E md \in Modes, s \in 1..NSys, b \in Bundles :
            /\ x.sysmode[s] # 2 /\ ~(x.sysmode[s] = 1 /\ md # "persistent")
            /\ \A j \in DOMAIN b : <<s, b[j]>> \notin x.regd
            /\ go(<<"reg", md, s, b, IF md = "revokable" THEN x.nextTok ELSE 0>>)
    \/ "once" \in OpNames_ /\ x.onceUsed < NOnce /\ \E b \in Bundles : go(<<"once", NSys + x.onceUsed + 1, b, x.nextTok>>)
    \/ "on" \in OpNames_ /\ x.onceUsed < NOnce /\ \E md \in Modes, b \in Bundles :
            go(<<"on", md, NSys + x.onceUsed + 1, b, IF md = "revokable" THEN x.nextTok ELSE 0>>)
    \/ "revoke" \in OpNames_ /\ \E k \in DOMAIN x.tok : go(<<"revoke", k>>)
    \/ "probe" \in OpNames_ /\ go(<<"probe">>)
    \/ "wadd" \in OpNames_ /\ \E i \in 1..NW, b \in Bundles : (\A j \in DOMAIN b : <<WSysC(i), b[j]>> \notin x.regd) /\ Len(b) > 0 /\ go(<<"wadd", i, b>>)
    \/ "wrem" \in OpNames_ /\ \E i \in 1..NW, b \in Bundles : Len(b) > 0 /\ go(<<"wrem", i, b>>)
    \/ "wrun" \in OpNames_ /\ \E i \in 1..NW : go(<<"wrun", i>>)
    \/ "eadd" \in OpNames_ /\ NER > 0 /\ cur # EWSysC /\ \E e \in Ents, v \in 1..NVal : go(<<"eadd", 1, e, v>>)
    \/ "erem" \in OpNames_ /\ NER > 0 /\ cur # EWSysC /\ \E e \in Ents : \E b \in EBundles(e) : go(<<"erem", 1, b>>)
    \/ "setlocal" \in OpNames_ /\ NER > 0 /\ cur = EWSysC /\ \E v \in 1..NVal : go(<<"setlocal", v>>)

ScriptOf(r) == IF r <= Len(w.prog.scripts) THEN w.prog.scripts[r] ELSE [ops |-> <<>>, err |-> FALSE, notake |-> FALSE, take2 |-> FALSE]

(* first step of a body: the `run` record (readers sampled) *)
RBodyStart(x, fr, nt, t2) ==
    LET r == x.nextR
        v == ViewW(x, nt = 0)
        n == x.runs[fr.s] + 1
        twice == IF t2 = 1 /\ v.took # <<>> /\ "take_twice_ok" \in Mutants THEN << <<"se2", 1, 0, 0>> >> ELSE <<>>
        el == IF NER = 0 \/ fr.s # EWSysC THEN <<0, 0>>
              ELSE IF x.er.reacting /\ x.er.sys = EWSysC /\ x.er.src \in Ents /\ x.elocal[x.er.src] # 0
                   THEN <<x.er.src, IF "ew_wrong_local" \in Mutants THEN 0 ELSE x.elocal[x.er.src]>> ELSE <<-1, -1>>
        rec == [t |-> "run", r |-> r, sys |-> fr.s, local |-> IF "local_reset" \in Mutants THEN 1 ELSE n, cap |-> n,
                view |-> v.view \o twice, nt |-> nt, t2 |-> t2, el |-> el]
        x1 == [v.w EXCEPT !.nextR = @ + 1, !.runs[fr.s] = n]
    IN [w |-> SetTopF(x1, [fr EXCEPT !.r = r, !.started = TRUE, !.nt = nt, !.t2 = t2]),
        \* the harness takes the payload (records taken, drop) before it logs the run
        out |-> v.took \o <<rec>>]

RBodyOp(x, fr, op) ==
    LET is == IssueW(x, op)
        i == Len(fr.ops) + 1
        x1 == [is.w EXCEPT !.budget = IF Scripted THEN @ ELSE @ - 1]
        imm == op[1] \in ImmOps
        x2 == SetTopF(x1, [fr EXCEPT !.ops = Append(@, [op |-> op, ret |-> is.ret]), !.cleaned = IF imm THEN TRUE ELSE @])
        item == [Cmd0 EXCEPT !.c = "op", !.r = fr.r, !.i = i, !.op = op, !.ret = is.ret]
    IN IF imm
       THEN \* an immediate call: it runs now, nested in the body; the cleanup this exclusive system queued is flushed on the way
            [w |-> PushF([x2 EXCEPT !.pendcl = IF fr.cleaned THEN @ ELSE fr.kind], QFrame(<<item>>, <<>>)), out |-> << IssueRec(fr.r, i, op, is.ret) >>]
       ELSE [w |-> x2, out |-> << IssueRec(fr.r, i, op, is.ret) >>]

RBodyEnd(x, fr, err) ==
    (* body returned: cleanup, then its commands are applied in order   [callbacks.rs:run_initialized_system] *)
    LET cl == IF fr.cleaned THEN [w |-> x, out |-> <<>>] ELSE CleanupW(x, fr.kind)
        items0 == [ i \in DOMAIN fr.ops |-> [Cmd0 EXCEPT !.c = "op", !.r = fr.r, !.i = i, !.op = fr.ops[i].op, !.ret = fr.ops[i].ret] ]
        items == SelectSeq(items0, LAMBDA it : it.op[1] # "setlocal" /\ it.ret # -9 /\ it.op[1] \notin ImmOps)
        late == "cleanup_after_commands" \in Mutants
        q == IF late THEN Append(items, [Cmd0 EXCEPT !.c = "cleanup", !.kind = fr.kind]) ELSE items
        x1 == SetTopF(IF late THEN x ELSE cl.w, [fr EXCEPT !.pc = "post"])
    IN [w |-> PushF(x1, QFrame(q, <<>>)),
        out |-> << [t |-> "bodyend", r |-> fr.r, err |-> err] >> \o (IF late THEN <<>> ELSE cl.out)]

----------------------------------------------------------------------------
(* driver *)

DFrame(ops) == [f |-> "d", ops |-> ops, issued |-> <<>>, pc |-> "issue", clear |-> FALSE, frame |-> FALSE, direct |-> FALSE]

Quiesce(x) ==
    LET kinds == <<"bc", "res", "anyev", "ins", "mut", "rem", "eins", "emut", "erem", "eev", "desp">>
        rows(kd) == Cat([ ty \in 0..2 |-> Cat([ e0 \in 1..(NEnt + 1) |->
                        MapSeq(SelectSeq(x.reg, LAMBDA y : y.kd = kd /\ y.ty = ty /\ y.e = e0 - 1),
                               LAMBDA y : <<y.kd, y.ty, y.e, y.s, IF y.h # 0 THEN 1 ELSE 0>>) ]) ])
        \* ty ranges over 0..2 : index i of the outer sequence is ty = i - 1
        rowsK(kd) == Cat([ tyi \in 1..3 |-> Cat([ e0 \in 1..(NEnt + 1) |->
                        MapSeq(SelectSeq(x.reg, LAMBDA y : y.kd = kd /\ y.ty = tyi - 1 /\ y.e = e0 - 1),
                               LAMBDA y : <<y.kd, y.ty, y.e, y.s, IF y.h # 0 THEN 1 ELSE 0>>) ]) ])
        tables == Cat([ i \in 1..Len(kinds) |-> rowsK(kinds[i]) ])
        comps == Cat([ e \in 1..NEnt |-> Cat([ c \in 1..2 |-> IF x.comp[<<e, c>>] # 0 THEN << <<e, c, x.comp[<<e, c>>]>> >> ELSE <<>> ]) ])
        ndata == Cardinality({ d \in DOMAIN x.data : x.data[d].live /\ x.data[d].kind \in {"bc", "eev"} })
    IN [t |-> "quiesce", step |-> x.step,
        counter |-> x.counter, buffered |-> Len(x.buffered),
        prepared |-> <<Len(x.ev.prepared), Len(x.se.prepared), Len(x.er.prepared), Len(x.ds.prepared)>>,
        reacting |-> << IF x.ev.reacting THEN 1 ELSE 0, IF x.se.reacting THEN 1 ELSE 0, IF x.er.reacting THEN 1 ELSE 0, IF x.ds.reacting THEN 1 ELSE 0 >>,
        held |-> IF x.ds.held THEN 1 ELSE 0,
        data |-> ndata,
        missing |-> SeqOfSet({ s \in x.alive : x.storage[s] # "idle" }),
        alive_sys |-> SeqOfSet(x.alive), alive_ent |-> SeqOfSet(x.aliveE),
        comps |-> comps, res |-> <<x.res[1], x.res[2]>>, elocal |-> SeqOfSet({ e \in x.aliveE : x.elocal[e] # 0 }),
        tables |-> tables]

(* World::clear_trackers (end of App::update): removal events that survived one clear are dropped, the others age *)
ClearW(x) ==
    [x EXCEPT !.remLog = [ c \in 1..2 |-> MapSeq(SelectSeq(@[c], LAMBDA ev : ev.age = 0), LAMBDA ev : [ev EXCEPT !.age = 1]) ],
              !.remBase = [ c \in 1..2 |-> @[c] + Len(SelectSeq(x.remLog[c], LAMBDA ev : ev.age = 1)) ]]

DrvRec(x, kind) == [t |-> "drv", step |-> x.step, kind |-> kind]

----------------------------------------------------------------------------
(* transitions *)

Emit(r) == w' = r.w /\ out' = r.out

StepQ(fr) ==
    IF Len(fr.q) = 0
    THEN Emit([w |-> PopF(w), out |-> fr.post])
    ELSE LET c == Head(fr.q)
             x == SetTopF(w, [fr EXCEPT !.q = Tail(@)])
         IN CASE c.c = "op" -> Emit(ExecOp(x, c))
              [] c.c = "cleanup" -> Emit(CleanupW(x, c.kind))
              [] OTHER -> Emit(ExecCmd(x, c))

StepBody(fr) ==
    IF ~fr.started
    THEN IF Scripted
         THEN LET sc == ScriptOf(w.nextR) IN Emit(RBodyStart(w, fr, IF sc.notake THEN 1 ELSE 0, IF sc.take2 THEN 1 ELSE 0))
         ELSE \E nt \in (IF "notake" \in Features /\ fr.kind = "sysev" THEN {0, 1} ELSE {0}),
                 t2 \in (IF "take2" \in Features /\ fr.kind = "sysev" THEN {0, 1} ELSE {0}) :
                 (nt = 1 => t2 = 0) /\ Emit(RBodyStart(w, fr, nt, t2))
    ELSE IF Scripted
         THEN LET sc == ScriptOf(fr.r)
              IN IF Len(fr.ops) < Len(sc.ops) THEN Emit(RBodyOp(w, fr, sc.ops[Len(fr.ops) + 1]))
                 ELSE Emit(RBodyEnd(w, fr, sc.err))
         ELSE \/ /\ Len(fr.ops) < BodyOps /\ w.budget > 0
                 /\ FreeOp(w, fr.s, IF fr.s \in Excl
                                   THEN (OpNames \ NeedAccess) \ (IF \A j \in DOMAIN fr.ops : fr.ops[j].op[1] \in ImmOps THEN {} ELSE ImmOps)
                                   ELSE OpNames \ ImmOps,
                           LAMBDA op : Emit(RBodyOp(w, fr, op)))
              \/ \E err \in (IF "err" \in Features THEN {FALSE, TRUE} ELSE {FALSE}) : Emit(RBodyEnd(w, fr, err))

StepR(fr) ==
    CASE fr.pc = "enter" -> Emit(REnter(w, fr))
      [] fr.pc = "extract" -> Emit(RExtract(w, fr))
      [] fr.pc = "body" -> StepBody(fr)
      [] fr.pc = "post" -> Emit(RPost(w, fr))
      [] fr.pc = "replay" -> Emit(RReplay(w, fr))
      [] fr.pc = "final" -> Emit(RFinal(w, fr))
      [] fr.pc = "exit" -> Emit([w |-> PopF(w), out |-> << [t |-> "exit", k |-> fr.k] >>])

DIssue(fr, op) ==
    LET is == IssueW(w, op)
        i == Len(fr.issued) + 1
    IN Emit([w |-> SetTopF(is.w, [fr EXCEPT !.issued = Append(@, [op |-> op, ret |-> is.ret])]),
             out |-> << IssueRec(-w.step, i, op, is.ret) >>])

StepD(fr) ==
    CASE fr.pc = "issue" ->
            IF Len(fr.issued) < Len(fr.ops)
            THEN DIssue(fr, fr.ops[Len(fr.issued) + 1])
            ELSE LET items == SelectSeq([ i \in DOMAIN fr.issued |-> [Cmd0 EXCEPT !.c = "op", !.r = -w.step, !.i = i, !.op = fr.issued[i].op, !.ret = fr.issued[i].ret] ],
                                        LAMBDA it : it.ret # -9)
                 IN Emit([w |-> PushF(SetTopF(w, [fr EXCEPT !.pc = "wait"]), QFrame(items, <<>>)), out |-> <<>>])
      [] fr.pc = "free" ->
            \/ /\ Len(fr.issued) < MaxOps /\ w.budget > 0
               /\ FreeOp(w, 0, IF fr.direct THEN OpNames \cap DirectOps ELSE OpNames \ ImmOps, LAMBDA op : LET is == IssueW(w, op) IN
                       Emit([w |-> SetTopF([is.w EXCEPT !.budget = @ - 1], [fr EXCEPT !.issued = Append(@, [op |-> op, ret |-> is.ret])]),
                             out |-> << IssueRec(-w.step, Len(fr.issued) + 1, op, is.ret) >>]))
            \/ /\ Len(fr.issued) > 0
               /\ LET items == SelectSeq([ i \in DOMAIN fr.issued |-> [Cmd0 EXCEPT !.c = "op", !.r = -w.step, !.i = i, !.op = fr.issued[i].op, !.ret = fr.issued[i].ret] ],
                                          LAMBDA it : it.ret # -9)
                  IN Emit([w |-> PushF(SetTopF(w, [fr EXCEPT !.pc = "wait"]), QFrame(items, <<>>)), out |-> <<>>])
      [] fr.pc = "wait" ->
            IF fr.frame
            THEN \* the rest of App::update: Last schedule (GC, poll), then clear_trackers
                 Emit(GcPoll(SetTopF(w, [fr EXCEPT !.frame = FALSE, !.clear = TRUE]), <<>>))
            ELSE LET x == IF fr.clear THEN ClearW(w) ELSE w IN Emit([w |-> PopF(x), out |-> << Quiesce(x) >>])

(* a driver step starts when nothing is running *)
StepIdle ==
    IF Scripted
    THEN /\ w.step < Len(w.prog.steps)
         /\ LET st == w.prog.steps[w.step + 1]
                x == [w EXCEPT !.step = @ + 1]
            IN CASE st.kind = "ops" -> Emit([w |-> PushF(x, DFrame(st.ops)), out |-> << DrvRec(x, "ops") >>])
                 [] st.kind = "frame" -> Emit([w |-> PushF(x, [DFrame(st.ops) EXCEPT !.frame = TRUE]), out |-> << DrvRec(x, "frame") >>])
                 \* direct world access between trees (no command queue, no flush): the ops take effect one after the other
                 [] st.kind = "direct" -> Emit([w |-> PushF(x, DFrame(st.ops)), out |-> << DrvRec(x, "direct") >>])
                 [] st.kind = "gc" -> LET g == GcW(x) IN Emit([w |-> PushF(g.w, [DFrame(<<>>) EXCEPT !.pc = "wait"]), out |-> << DrvRec(x, "gc") >> \o g.out])
                 [] st.kind = "poll" -> LET p == PollOnly(PushF(x, [DFrame(<<>>) EXCEPT !.pc = "wait"]), << DrvRec(x, "poll") >>) IN Emit(p)
                 [] st.kind = "clear" -> LET p == GcPoll(PushF(x, [DFrame(<<>>) EXCEPT !.pc = "wait", !.clear = TRUE]), << DrvRec(x, "clear") >>) IN Emit(p)
    ELSE /\ w.step < MaxSteps
         /\ LET x == [w EXCEPT !.step = @ + 1]
                xf == [w EXCEPT !.step = MaxSteps]       \* the final step ends the behaviour
            IN IF w.step = 0 /\ Len(InitOps) > 0
               THEN Emit([w |-> PushF(x, DFrame(InitOps)), out |-> << DrvRec(x, "ops") >>])
               ELSE IF FinalStep # "" /\ (w.step = MaxSteps - 1 \/ w.budget = 0)
               THEN CASE FinalStep = "gc" -> LET g == GcW(xf) IN Emit([w |-> PushF(g.w, [DFrame(<<>>) EXCEPT !.pc = "wait"]), out |-> << DrvRec(xf, "gc") >> \o g.out])
                      [] FinalStep = "poll" -> Emit(PollOnly(PushF(xf, [DFrame(<<>>) EXCEPT !.pc = "wait"]), << DrvRec(xf, "poll") >>))
                      [] OTHER -> Emit(GcPoll(PushF(xf, [DFrame(<<>>) EXCEPT !.pc = "wait", !.clear = TRUE]), << DrvRec(xf, "clear") >>))
               ELSE \/ "ops" \in StepKinds /\ w.budget > 0 /\ Emit([w |-> PushF(x, [DFrame(<<>>) EXCEPT !.pc = "free"]), out |-> << DrvRec(x, "ops") >>])
                    \/ "frame" \in StepKinds /\ w.budget > 0 /\ Emit([w |-> PushF(x, [DFrame(<<>>) EXCEPT !.pc = "free", !.frame = TRUE]), out |-> << DrvRec(x, "frame") >>])
                    \/ "direct" \in StepKinds /\ w.budget > 0 /\ OpNames \cap DirectOps # {}
                         /\ Emit([w |-> PushF(x, [DFrame(<<>>) EXCEPT !.pc = "free", !.direct = TRUE]), out |-> << DrvRec(x, "direct") >>])
                    \/ "gc" \in StepKinds /\ LET g == GcW(x) IN Emit([w |-> PushF(g.w, [DFrame(<<>>) EXCEPT !.pc = "wait"]), out |-> << DrvRec(x, "gc") >> \o g.out])
                    \/ "poll" \in StepKinds /\ Emit(PollOnly(PushF(x, [DFrame(<<>>) EXCEPT !.pc = "wait"]), << DrvRec(x, "poll") >>))
                    \/ "clear" \in StepKinds /\ Emit(GcPoll(PushF(x, [DFrame(<<>>) EXCEPT !.pc = "wait", !.clear = TRUE]), << DrvRec(x, "clear") >>))

CInit == w = WInit /\ out = <<CfgRec>>

CNext ==
    IF Len(w.stack) = 0 THEN StepIdle
    ELSE LET fr == TopF(w) IN
         CASE fr.f = "q" -> StepQ(fr)
           [] fr.f = "r" -> StepR(fr)
           [] fr.f = "d" -> StepD(fr)

Idle == Len(w.stack) = 0

(* named values for AppRegs (shared by MC.tla and TraceConf.tla) *)
App_None == <<>>
App_Three == << << <<"bc", 1>> >>, << <<"bc", 1>>, <<"eev", 1, 1>> >>, << <<"res", 1>>, <<"anyev", 1>> >> >>
(* ... plus one whose only trigger dies with its entity (a persistent reactor must survive that) *)
App_Four == << << <<"bc", 1>> >>, << <<"bc", 1>>, <<"eev", 1, 1>> >>, << <<"res", 1>>, <<"anyev", 1>> >>, << <<"eev", 2, 1>> >> >>
=============================================================================
