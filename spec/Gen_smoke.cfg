SPECIFICATION GSpec
CONSTANTS
  NSys = 2
  NOnce = 0
  NW = 0
  NER = 0
  NEnt = 1
  Hier = 0
  NTy = 1
  NVal = 1
  OpNames = {"run", "sysev", "bc"}
  Bundles <- B_One
  Modes = {"persistent"}
  MaxOps = 2
  BodyOps = 2
  FinalStep = ""
  Budget = 3
  MaxSteps = 2
  InitOps <- Init_Listen
  StepKinds = {"ops"}
  Features = {}
  Defects = {}
  Mutants = {}
  Scripted = FALSE
INVARIANT NoViol
INVARIANT RcOK
INVARIANT IdleAtRest
INVARIANT Emitted
CHECK_DEADLOCK FALSE
