------------------------------- MODULE ADGen -------------------------------
(* Schedules of AutoDespawn.tla for lock-step replay on real threads: one JSON line per complete behaviour. *)
EXTENDS AutoDespawn, Json
Emitted == (nops = MaxOps /\ ~gc) => PrintT(<<"REPLAY", ToJson(hist)>>)
=============================================================================
