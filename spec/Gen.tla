--------------------------------- MODULE Gen ---------------------------------
(* Spec -> impl: MC.tla plus a history variable.  Every complete behaviour (the driver is idle and no further  *)
(* step is possible) is printed once as one JSON line: the program is recoverable from the `issue`, `run` and  *)
(* `drv` records, the rest is the model's prediction of what the real crate must emit.                        *)
EXTENDS MC, Json

VARIABLE hist
gvars == <<w, out, m, hist>>

GInit == Init /\ hist = out
GNext == Next /\ hist' = hist \o out'
GSpec == GInit /\ [][GNext]_gvars

Terminal == Len(w.stack) = 0 /\ w.step >= 1 /\
            (w.step >= MaxSteps \/ (StepKinds \subseteq {"ops", "frame", "direct"} /\ w.budget = 0 /\ FinalStep = ""))

SEG == INSTANCE SequencesExt
(* the behaviour and the monitors' verdict on it: a recorded execution that equals `hist` record for record has this verdict *)
Emitted == Terminal => PrintT(<<"REPLAY", ToJson([hist |-> hist, viol |-> SEG!SetToSeq(m.viol)])>>)

(* hide the history from the fingerprint when only distinct model states matter *)
GView == <<w, out, m>>
=============================================================================
