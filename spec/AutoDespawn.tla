---------------------------- MODULE AutoDespawn ----------------------------
(***************************************************************************)
(* C10: AutoDespawnSignal is an exact reference count.   [auto_despawn.rs] *)
(*                                                                         *)
(* Arc<Inner{entity, sender}>; Drop of Inner sends the entity to the       *)
(* AutoDespawner channel; garbage_collect_entities drains the channel and  *)
(* despawn_recursive()s what still exists.  Clones may live on any thread. *)
(* The strong-count decrement and the send are SEPARATE steps (the thread  *)
(* that reaches zero runs Inner::drop afterwards), and GC receives one     *)
(* entity at a time, so TLC explores "count is 0 but the send has not      *)
(* happened while GC drains".                                              *)
(***************************************************************************)
EXTENDS Integers, Sequences, FiniteSets, TLC

CONSTANTS
    Ent,         \* entities that can be prepared, e.g. {1, 2}
    Child,       \* a child entity (never prepared) or 0 for none
    Threads,     \* worker threads, e.g. {"t1", "t2"}; main is "m"
    MaxClones,   \* bound on the strong count
    MaxOps,      \* bound on user operations (prepare/clone/move/drop/manual despawn/reparent/gc starts)
    SplitDrop,   \* TRUE: decrement and send are separate steps (real threads); FALSE: atomic (lock-step replay)
    Mutants      \* model mutants: "clone_new_arc", "gc_break_on_dead"

VARIABLES cnt, own, pend, chan, alive, parent, gc, must, nops, killedWhileHeld, missed, hist
vars == <<cnt, own, pend, chan, alive, parent, gc, must, nops, killedWhileHeld, missed, hist>>

All == Ent \cup (IF Child = 0 THEN {} ELSE {Child})
Th == Threads \cup {"m"}

Init ==
    /\ cnt = [e \in Ent |-> 0]
    /\ own = [e \in Ent |-> [t \in Th |-> 0]]
    /\ pend = {}                 \* <<thread, entity>>: reached zero, send not yet done
    /\ chan = <<>>
    /\ alive = All
    /\ parent = [e \in All |-> 0]
    /\ gc = FALSE                \* main is inside garbage_collect_entities
    /\ must = {}                 \* entities whose every clone had been dropped (and sent) when the current GC started
    /\ nops = 0
    /\ killedWhileHeld = FALSE
    /\ missed = FALSE
    /\ hist = <<>>

Desc(e) == {e} \cup { c \in All : parent[c] = e }
SetSeq(S) == LET RECURSIVE f(_)
                 f(T) == IF T = {} THEN <<>> ELSE LET x == CHOOSE x \in T : \A y \in T : x <= y IN <<x>> \o f(T \ {x})
             IN f(S)
(* logged LAST in every action: records the entities alive after the step *)
Log(op, t, e) == hist' = Append(hist, [op |-> op, th |-> t, e |-> e, alive |-> SetSeq(alive')])
Lock(t) == (t = "m" \/ ~SplitDrop) => ~gc
Bump == nops' = nops + 1

Prepare(e) ==
    /\ ~gc /\ nops < MaxOps /\ cnt[e] = 0 /\ \A t \in Th : <<t, e>> \notin pend /\ e \notin {chan[i] : i \in DOMAIN chan}
    /\ \A t \in Th : own[e][t] = 0
    /\ cnt' = [cnt EXCEPT ![e] = 1] /\ own' = [own EXCEPT ![e]["m"] = 1]
    /\ UNCHANGED <<pend, chan, alive, parent, gc, must, killedWhileHeld, missed>>
    /\ Bump /\ Log("prepare", "m", e)

Clone(t, e) ==
    /\ Lock(t) /\ nops < MaxOps /\ own[e][t] > 0 /\ cnt[e] < MaxClones
    /\ cnt' = [cnt EXCEPT ![e] = IF "clone_new_arc" \in Mutants THEN @ ELSE @ + 1]
    /\ own' = [own EXCEPT ![e][t] = @ + 1]
    /\ UNCHANGED <<pend, chan, alive, parent, gc, must, killedWhileHeld, missed>>
    /\ Bump /\ Log("clone", t, e)

Move(t, t2, e) ==
    /\ Lock(t) /\ nops < MaxOps /\ t # t2 /\ own[e][t] > 0
    /\ own' = [own EXCEPT ![e][t] = @ - 1, ![e][t2] = @ + 1]
    /\ UNCHANGED <<cnt, pend, chan, alive, parent, gc, must, killedWhileHeld, missed>>
    /\ Bump /\ Log("move_" \o t2, t, e)

DropDec(t, e) ==
    /\ Lock(t) /\ nops < MaxOps /\ own[e][t] > 0
    /\ own' = [own EXCEPT ![e][t] = @ - 1]
    /\ LET c == IF cnt[e] > 0 THEN cnt[e] - 1 ELSE 0
       IN /\ cnt' = [cnt EXCEPT ![e] = c]
          /\ IF c = 0
             THEN IF SplitDrop THEN pend' = pend \cup {<<t, e>>} /\ chan' = chan
                  ELSE pend' = pend /\ chan' = Append(chan, e)
             ELSE pend' = pend /\ chan' = chan
    /\ UNCHANGED <<alive, parent, gc, must, killedWhileHeld, missed>>
    /\ Bump /\ Log("drop", t, e)

DropSend(t, e) ==
    /\ <<t, e>> \in pend
    /\ pend' = pend \ {<<t, e>>} /\ chan' = Append(chan, e)
    /\ UNCHANGED <<cnt, own, alive, parent, gc, must, nops, killedWhileHeld, missed, hist>>

ManualDespawn(e) ==
    /\ ~gc /\ nops < MaxOps /\ e \in alive
    /\ alive' = alive \ Desc(e)
    /\ UNCHANGED <<cnt, own, pend, chan, parent, gc, must, killedWhileHeld, missed>>
    /\ Bump /\ Log("despawn", "m", e)

SetParent(c, p) ==
    /\ ~gc /\ nops < MaxOps /\ c = Child /\ Child # 0 /\ c \in alive /\ p \in alive /\ p \in Ent /\ parent[c] # p
    /\ parent' = [parent EXCEPT ![c] = p]
    /\ UNCHANGED <<cnt, own, pend, chan, alive, gc, must, killedWhileHeld, missed>>
    /\ Bump /\ Log("reparent", "m", p)

Held(e) == \E t \in Th : own[e][t] > 0

(* AutoDespawnAppExt::setup_auto_despawn called again (the plugin and several App extension methods call it): no effect *)
Resetup ==
    /\ ~gc /\ nops < MaxOps
    /\ UNCHANGED <<cnt, own, pend, chan, alive, parent, gc, must, killedWhileHeld, missed>>
    /\ Bump /\ Log("setup", "m", 0)

GcStart ==
    /\ ~gc /\ nops < MaxOps
    /\ gc' = TRUE
    /\ must' = { e \in Ent : e \in {chan[i] : i \in DOMAIN chan} }
    /\ Bump
    /\ UNCHANGED <<cnt, own, pend, chan, alive, parent, killedWhileHeld, missed, hist>>

GcRecv ==
    /\ gc /\ Len(chan) > 0
    /\ LET e == Head(chan)
       IN IF e \notin alive /\ "gc_break_on_dead" \in Mutants
          THEN /\ gc' = FALSE /\ chan' = Tail(chan) /\ UNCHANGED <<alive, killedWhileHeld>>
               /\ missed' = (missed \/ \E e2 \in must : Desc(e2) \cap alive # {})
               /\ must' = {}
               /\ UNCHANGED <<cnt, own, pend, parent, nops>>
               /\ Log("gc", "m", 0)
          ELSE /\ chan' = Tail(chan)
               /\ alive' = alive \ Desc(e)
               /\ killedWhileHeld' = (killedWhileHeld \/ (e \in alive /\ Held(e)))
               /\ gc' = gc
               /\ UNCHANGED <<cnt, own, pend, parent, must, nops, missed, hist>>

GcEnd ==
    /\ gc /\ Len(chan) = 0
    /\ gc' = FALSE
    /\ missed' = (missed \/ \E e \in must : Desc(e) \cap alive # {})
    /\ must' = {}
    /\ UNCHANGED <<cnt, own, pend, chan, alive, parent, nops, killedWhileHeld>>
    /\ Log("gc", "m", 0)

Next ==
    \/ \E e \in Ent : Prepare(e) \/ ManualDespawn(e)
    \/ \E t \in Th, e \in Ent : Clone(t, e) \/ DropDec(t, e) \/ DropSend(t, e)
    \/ \E t \in Th, t2 \in Th, e \in Ent : Move(t, t2, e)
    \/ \E p \in Ent : SetParent(Child, p)
    \/ GcStart \/ GcRecv \/ GcEnd \/ Resetup

Spec == Init /\ [][Next]_vars

(* ---- C10 ---- *)
TypeOK == /\ \A e \in Ent : cnt[e] \in 0..MaxClones
          /\ \A e \in Ent : \A t \in Th : own[e][t] \in 0..MaxClones
CountIsOwnership == \A e \in Ent : cnt[e] = own[e]["m"] + (LET S == Threads IN
                        IF S = {} THEN 0 ELSE
                        LET RECURSIVE sum(_)
                            sum(T) == IF T = {} THEN 0 ELSE LET x == CHOOSE x \in T : TRUE IN own[e][x] + sum(T \ {x})
                        IN sum(S))
NeverWhileHeld == ~killedWhileHeld                                     \* never despawned by the framework while a clone exists
SentOnlyAtZero == \A i \in DOMAIN chan : cnt[chan[i]] = 0 \/ Held(chan[i]) = FALSE
SentOnce == \A i, j \in DOMAIN chan : i # j => chan[i] # chan[j]
(* the first GC that starts after every clone is gone (and its drop has returned) removes the entity and its descendants *)
FirstGcCollects == ~missed

View == <<cnt, own, pend, chan, alive, parent, gc, must, nops, killedWhileHeld, missed>>

(* behaviours for lock-step replay on real threads (SplitDrop = FALSE): printed when the op budget is used up *)
DoneGen == (nops = MaxOps /\ ~gc) => PrintT(<<"ADREPLAY", hist>>)
=============================================================================
