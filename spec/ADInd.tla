------------------------------- MODULE ADInd -------------------------------
(***************************************************************************)
(* C10, unbounded: the core of AutoDespawn.tla (reference count, channel,  *)
(* split decrement / send, garbage collection one entity at a time)        *)
(* WITHOUT the bounds MaxClones / MaxOps and without history variables,    *)
(* typed for Apalache.  IndInv is an inductive invariant:                  *)
(*     Init => IndInv                       (apalache --length=0)          *)
(*     IndInv /\ Next => IndInv'            (apalache --init=IndInv --length=1) *)
(* and IndInv => Safe, so for the fixed sets of entities and threads the   *)
(* safety part of C10 holds for EVERY number of clones and operations:     *)
(*   - the framework never despawns an entity while a clone of its signal  *)
(*     exists (GcRecv only takes entities off the channel; an entity on    *)
(*     the channel has count 0 and no owner),                              *)
(*   - an entity is sent at most once,                                     *)
(*   - the count is exactly the number of clones owned by the threads.     *)
(* The actions are those of AutoDespawn.tla with SplitDrop = TRUE.         *)
(***************************************************************************)
EXTENDS Integers, Sequences, FiniteSets, Apalache

Ent == {1, 2}
Th == {"m", "t1", "t2"}

VARIABLES
    \* @type: Int -> Int;
    cnt,
    \* @type: Int -> (Str -> Int);
    own,
    \* @type: Set(<<Str, Int>>);
    pend,
    \* @type: Seq(Int);
    chan,
    \* @type: Set(Int);
    alive,
    \* @type: Bool;
    gc,
    \* @type: Bool;
    killedWhileHeld

vars == <<cnt, own, pend, chan, alive, gc, killedWhileHeld>>

InChan(e) == \E i \in DOMAIN chan : chan[i] = e
Held(e) == \E t \in Th : own[e][t] > 0
Owned(e) == own[e]["m"] + own[e]["t1"] + own[e]["t2"]

Init ==
    /\ cnt = [e \in Ent |-> 0]
    /\ own = [e \in Ent |-> [t \in Th |-> 0]]
    /\ pend = {}
    /\ chan = <<>>
    /\ alive = Ent
    /\ gc = FALSE
    /\ killedWhileHeld = FALSE

(* main thread is inside garbage_collect_entities while gc: only worker threads move *)
Lock(t) == t = "m" => ~gc

Prepare(e) ==
    /\ ~gc /\ cnt[e] = 0 /\ ~InChan(e) /\ \A t \in Th : <<t, e>> \notin pend
    /\ cnt' = [cnt EXCEPT ![e] = 1]
    /\ own' = [own EXCEPT ![e] = [@ EXCEPT !["m"] = 1]]
    /\ UNCHANGED <<pend, chan, alive, gc, killedWhileHeld>>

Clone(t, e) ==
    /\ Lock(t) /\ own[e][t] > 0
    /\ cnt' = [cnt EXCEPT ![e] = @ + 1]
    /\ own' = [own EXCEPT ![e] = [@ EXCEPT ![t] = @ + 1]]
    /\ UNCHANGED <<pend, chan, alive, gc, killedWhileHeld>>

Move(t, t2, e) ==
    /\ Lock(t) /\ t # t2 /\ own[e][t] > 0
    /\ own' = [own EXCEPT ![e] = [@ EXCEPT ![t] = @ - 1, ![t2] = @ + 1]]
    /\ UNCHANGED <<cnt, pend, chan, alive, gc, killedWhileHeld>>

DropDec(t, e) ==
    /\ Lock(t) /\ own[e][t] > 0
    /\ own' = [own EXCEPT ![e] = [@ EXCEPT ![t] = @ - 1]]
    /\ cnt' = [cnt EXCEPT ![e] = @ - 1]
    /\ pend' = IF cnt[e] = 1 THEN pend \cup {<<t, e>>} ELSE pend
    /\ UNCHANGED <<chan, alive, gc, killedWhileHeld>>

DropSend(t, e) ==
    /\ <<t, e>> \in pend
    /\ pend' = pend \ {<<t, e>>}
    /\ chan' = Append(chan, e)
    /\ UNCHANGED <<cnt, own, alive, gc, killedWhileHeld>>

ManualDespawn(e) ==
    /\ ~gc /\ e \in alive
    /\ alive' = alive \ {e}
    /\ UNCHANGED <<cnt, own, pend, chan, gc, killedWhileHeld>>

GcStart == ~gc /\ gc' = TRUE /\ UNCHANGED <<cnt, own, pend, chan, alive, killedWhileHeld>>

GcRecv ==
    /\ gc /\ Len(chan) > 0
    /\ LET e == Head(chan) IN
        /\ chan' = Tail(chan)
        /\ alive' = alive \ {e}
        /\ killedWhileHeld' = (killedWhileHeld \/ (e \in alive /\ Held(e)))
    /\ UNCHANGED <<cnt, own, pend, gc>>

GcEnd == gc /\ Len(chan) = 0 /\ gc' = FALSE /\ UNCHANGED <<cnt, own, pend, chan, alive, killedWhileHeld>>

Next ==
    \/ \E e \in Ent : Prepare(e) \/ ManualDespawn(e)
    \/ \E t \in Th, e \in Ent : Clone(t, e) \/ DropDec(t, e) \/ DropSend(t, e)
    \/ \E t \in Th, t2 \in Th, e \in Ent : Move(t, t2, e)
    \/ GcStart \/ GcRecv \/ GcEnd

(* ---- the inductive invariant ---- *)
TypeOK ==
    /\ DOMAIN cnt = Ent /\ \A e \in Ent : cnt[e] >= 0
    /\ DOMAIN own = Ent /\ \A e \in Ent : DOMAIN own[e] = Th /\ \A t \in Th : own[e][t] >= 0
    /\ \A p \in pend : p[1] \in Th /\ p[2] \in Ent
    /\ \A i \in DOMAIN chan : chan[i] \in Ent
    /\ alive \subseteq Ent
    /\ gc \in BOOLEAN
    /\ killedWhileHeld \in BOOLEAN

IndInv ==
    /\ TypeOK
    /\ \A e \in Ent : cnt[e] = Owned(e)                                      \* count = ownership
    /\ \A e \in Ent : InChan(e) => cnt[e] = 0 /\ \A t \in Th : <<t, e>> \notin pend   \* sent only at zero, after the send
    /\ \A e \in Ent : \A t \in Th : <<t, e>> \in pend => cnt[e] = 0          \* a pending send means zero was reached
    /\ \A e \in Ent : \A t1 \in Th, t2 \in Th : (<<t1, e>> \in pend /\ <<t2, e>> \in pend) => t1 = t2   \* by one thread only
    /\ \A i \in DOMAIN chan, j \in DOMAIN chan : i # j => chan[i] # chan[j]   \* sent once
    /\ ~killedWhileHeld

(* an arbitrary state satisfying the invariant (Apalache value generators; the bounds exceed what IndInv allows) *)
IndInit ==
    /\ cnt = Gen(2) /\ own = Gen(3) /\ pend = Gen(6) /\ chan = Gen(3) /\ alive = Gen(2)
    /\ gc \in BOOLEAN /\ killedWhileHeld \in BOOLEAN
    /\ IndInv

Safe ==
    /\ ~killedWhileHeld
    /\ \A e \in Ent : cnt[e] = Owned(e)
    /\ \A i \in DOMAIN chan, j \in DOMAIN chan : i # j => chan[i] # chan[j]
=============================================================================
