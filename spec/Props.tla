------------------------------- MODULE Props -------------------------------
(***************************************************************************)
(* Sixteen of the 18 properties of properties.jsonl (C10 and C17 have      *)
(* their own modules) as MONITORS over the observation alphabet.           *)
(*                                                                         *)
(* A monitor is a pure function  MonStep(m, o)  from a monitor state and   *)
(* one observation record to the next monitor state.  It never blocks; it  *)
(* records violations in m.viol as <<property, reason>>.  The same         *)
(* function judges                                                         *)
(*   - behaviours of Cobweb.tla   (MC.tla:         m' = MonSeq(m, out'))   *)
(*   - executions of the real crate (TraceProps.tla: m' = MonStep(m, T[l]))*)
(*                                                                         *)
(* The monitor state is derived from observations only.  It mirrors what   *)
(* the public API promises (an abstract registration table, which          *)
(* deliveries are owed to whom, which payloads are unreleased, ...).       *)
(***************************************************************************)
EXTENDS Integers, Sequences, FiniteSets, TLC

----------------------------------------------------------------------------
(* generic helpers *)

Get(f, k, d) == IF k \in DOMAIN f THEN f[k] ELSE d
Put(f, k, v) == (k :> v) @@ f
Range(s) == { s[i] : i \in DOMAIN s }
Count(s, P(_)) == Cardinality({ i \in DOMAIN s : P(s[i]) })
CountEq(s, x) == Cardinality({ i \in DOMAIN s : s[i] = x })
RemoveAt(s, i) == SubSeq(s, 1, i-1) \o SubSeq(s, i+1, Len(s))
FirstIdx(s, P(_)) ==
    IF \E i \in DOMAIN s : P(s[i])
    THEN CHOOSE i \in DOMAIN s : P(s[i]) /\ \A j \in 1..(i-1) : ~P(s[j])
    ELSE 0
RemoveFirst(s, P(_)) == LET i == FirstIdx(s, P) IN IF i = 0 THEN s ELSE RemoveAt(s, i)
RECURSIVE Fold(_, _, _, _)
Fold(Op(_, _), acc, s, i) == IF i > Len(s) THEN acc ELSE Fold(Op, Op(acc, s[i]), s, i + 1)
FoldSeq(Op(_, _), acc, s) == Fold(Op, acc, s, 1)

----------------------------------------------------------------------------
(* violations *)

V(m, p, why) == [m EXCEPT !.viol = @ \cup {<<p, why>>}]
Chk(m, ok, p, why) == IF ok THEN m ELSE V(m, p, why)
V2(m, p1, p2, why) == V(V(m, p1, why), p2, why)

----------------------------------------------------------------------------
(* trigger keys *)

EntKinds == {"eins", "emut", "erem", "eev"}
KeyOf(tr) ==
    [kd |-> tr[1],
     ty |-> IF tr[1] \in EntKinds THEN tr[3] ELSE IF tr[1] = "desp" THEN 0 ELSE tr[2],
     e  |-> IF tr[1] \in EntKinds \cup {"desp"} THEN tr[2] ELSE 0]

(* does registration entry x listen to trigger (trig, ty, ent)? *)
Matches(x, trig, ty, ent) ==
    CASE trig = "bc"   -> x.kd = "bc" /\ x.ty = ty
      [] trig = "res"  -> x.kd = "res" /\ x.ty = ty
      [] trig = "eev"  -> (x.kd = "eev" /\ x.ty = ty /\ x.e = ent) \/ (x.kd = "anyev" /\ x.ty = ty)
      [] trig = "ins"  -> (x.kd = "eins" /\ x.ty = ty /\ x.e = ent) \/ (x.kd = "ins" /\ x.ty = ty)
      [] trig = "mut"  -> (x.kd = "emut" /\ x.ty = ty /\ x.e = ent) \/ (x.kd = "mut" /\ x.ty = ty)
      [] trig = "rem"  -> (x.kd = "erem" /\ x.ty = ty /\ x.e = ent) \/ (x.kd = "rem" /\ x.ty = ty)
      [] trig = "desp" -> x.kd = "desp" /\ x.e = ent
      [] OTHER -> FALSE

----------------------------------------------------------------------------
(* monitor state *)

NoCmd == [s |-> 0, kind |-> "none", ty |-> 0, e |-> 0, d |-> 0, p |-> 0, st |-> "none", sr |-> 0, si |-> 0, rk |-> "", seq |-> 0]

(* Which delivery a run "was caused by" is internal bookkeeping: when several deliveries are pending for one system  *)
(* and it runs once per delivery, a user can only see which data each run shows.  The monitors therefore follow the *)
(* DATA: when a run shows the data of another pending delivery to the same system, the two deliveries exchange      *)
(* their data in the shadow (everything but target and status), and order (C12) is judged on the data's sequence.   *)
F1Why == "F1: a polled reaction ran between another delivery's application and its start, and their data got mixed"
F2Why == "F2: the entity world reactor ran for an entity that was despawned after the reaction was scheduled (EntityLocal::get panics there)"
F2bWhy == "F2: the entity world reactor ran for an entity that was removed from it after the reaction was scheduled (EntityLocal::get panics there)"
Pending == {"reached", "postponed", "replaying"}
SwapData(m, a, b) ==
    LET ca == m.cmd[a]  cb == m.cmd[b]
    IN [m EXCEPT !.cmd = [@ EXCEPT ![a] = [cb EXCEPT !.s = ca.s, !.st = ca.st],
                                   ![b] = [ca EXCEPT !.s = cb.s, !.st = cb.st]]]

MInit ==
    [ nsys |-> 0, nonce |-> 0, nworld |-> 0, neworld |-> 0, hier |-> 0, nent |-> 0,
      alive |-> {}, aliveE |-> {},
      reg |-> <<>>,        \* abstract registration table: [id, s, kd, ty, e, h]
      nid |-> 0, nh |-> 0,
      hs |-> <<>>,         \* handle instance -> system
      rcl |-> {},          \* live reference-counted handle instances
      doomed |-> {},       \* systems whose last handle is gone: the next GC must despawn them
      revoked |-> {},      \* <<s, kd, ty, e>> revoked and not registered again
      anyrev |-> FALSE,
      once |-> {}, onceRan |-> {}, oncetok |-> <<>>,
      tok |-> <<>>,        \* token id -> [s, b]
      ops |-> <<>>, rets |-> <<>>,   \* <<r, i>> -> op / ret
      stack |-> <<>>,
      cmd |-> <<>>,        \* k -> command record
      last |-> NoCmd,
      owed |-> <<>>,       \* scheduled reactions whose command has not appeared yet
      pay |-> <<>>,        \* payload -> [out, dropped, taken, zero]
      dinfo |-> <<>>,      \* data id -> [ty, e, p]
      runs |-> <<>>,       \* system -> number of runs
      comp |-> <<>>,       \* <<e, c>> -> value (0 = absent)
      res |-> <<>>,        \* r -> value
      trk |-> {},          \* entities carrying a despawn tracker
      pendRem |-> <<>>,    \* [c, e, then (registration ids), seen]
      pendDesp |-> <<>>,   \* [e, seen]
      pdr |-> <<>>,        \* pending despawn reactions: [s, e, h]
      elocal |-> <<>>,     \* e -> local value of the entity world reactor (0 = none)
      drvlast |-> 0, stepkind |-> "",
      sig |-> <<>>,        \* payload -> plain entity whose auto-despawn signal travels in it
      doomedE |-> {},      \* plain entities whose signal has been released: the next GC must despawn them
      immk |-> {},         \* <<r, i>> of ops that are immediate calls from an exclusive body
      pdead |-> {},        \* payloads of events one of whose registered listeners / targets was already despawned
      deadop |-> FALSE,    \* some register / revoke op named an entity that was already despawned when it was applied
      taint |-> {},        \* commands whose start overlapped another pending delivery to the same system (finding F1)
      taintsys |-> {},     \* systems hit by finding F1 in the current tree: their tracker entries stay shifted until they drain
      viol |-> {} ]

WSys(m, w) == m.nsys + m.nonce + w
EWSys(m) == m.nsys + m.nonce + m.nworld + 1

Top(m) == IF Len(m.stack) = 0 THEN [f |-> "none"] ELSE m.stack[Len(m.stack)]
Pop(m) == [m EXCEPT !.stack = SubSeq(@, 1, Len(@) - 1)]
Push(m, fr) == [m EXCEPT !.stack = Append(@, fr)]
SetTop(m, fr) == [m EXCEPT !.stack = [@ EXCEPT ![Len(@)] = fr]]
(* inside a reaction tree: some system command is between `enter` and `exit` *)
InTree(m) == \E i \in DOMAIN m.stack : m.stack[i].f = "cmd"
(* inside a removal / despawn poll (finding F1 can only start there: a polled reaction runs in-line for a system that has a    *)
(* delivery applied but not started, or postponed)                                                                           *)
InPoll(m) == \E i \in DOMAIN m.stack : m.stack[i].f = "poll"

----------------------------------------------------------------------------
(* reference counting of reactor handles (C07) *)

HCount(m, h) == Count(m.reg, LAMBDA x : x.h = h) + Count(m.pdr, LAMBDA x : x.h = h)

Redoom(m) ==
    LET dead == { h \in m.rcl : HCount(m, h) = 0 }
    IN [m EXCEPT !.rcl = @ \ dead, !.doomed = @ \cup { m.hs[h] : h \in dead }]

(* register bundle b for system s; rc = reference-counted mode *)
AddReg(m, s, b, rc) ==
    LET h == IF rc THEN m.nh + 1 ELSE 0
        eff == SelectSeq(b, LAMBDA tr : KeyOf(tr).e = 0 \/ KeyOf(tr).e \in m.aliveE)
        ents == [ i \in 1..Len(eff) |->
                    [id |-> m.nid + i, s |-> s, kd |-> KeyOf(eff[i]).kd, ty |-> KeyOf(eff[i]).ty,
                     e |-> KeyOf(eff[i]).e, h |-> h] ]
        m1 == [m EXCEPT !.reg = @ \o ents, !.nid = @ + Len(eff),
                        !.nh = IF rc THEN h ELSE @,
                        !.hs = IF rc THEN Put(@, h, s) ELSE @,
                        !.rcl = IF rc THEN @ \cup {h} ELSE @,
                        !.trk = @ \cup { KeyOf(eff[i]).e : i \in { j \in 1..Len(eff) : KeyOf(eff[j]).kd = "desp" } },
                        !.revoked = @ \ { <<s, KeyOf(eff[i]).kd, KeyOf(eff[i]).ty, KeyOf(eff[i]).e>> : i \in 1..Len(eff) }]
    IN Redoom(m1)

RevokeOne(m, s, tr) ==
    LET k == KeyOf(tr)
        hit(x) == x.s = s /\ x.kd = k.kd /\ x.ty = k.ty /\ x.e = k.e
        reg2 == IF k.kd \in EntKinds THEN SelectSeq(m.reg, LAMBDA x : ~hit(x))
                ELSE RemoveFirst(m.reg, hit)
    IN [m EXCEPT !.reg = reg2, !.revoked = @ \cup {<<s, k.kd, k.ty, k.e>>}, !.anyrev = TRUE]

Revoke(m, s, b) == Redoom(FoldSeq(LAMBDA acc, tr : RevokeOne(acc, s, tr), m, b))

RegsFor(m, trig, ty, ent) == SelectSeq(m.reg, LAMBDA x : Matches(x, trig, ty, ent))

KillSys(m, s) == [m EXCEPT !.alive = @ \ {s}]

(* entity e (alive) is despawned *)
KillEntity(m, e) ==
    LET comps == { c \in 1..2 : Get(m.comp, <<e, c>>, 0) # 0 }
        remrecs == [ c \in comps |->
                      [c |-> c, e |-> e, seen |-> FALSE, tree |-> InTree(m),
                       then |-> { x.id : x \in Range(SelectSeq(m.reg, LAMBDA x : x.kd = "rem" /\ x.ty = c)) }] ]
        remseq == IF 1 \in comps /\ 2 \in comps THEN <<remrecs[1], remrecs[2]>>
                  ELSE IF 1 \in comps THEN <<remrecs[1]>> ELSE IF 2 \in comps THEN <<remrecs[2]>> ELSE <<>>
        m1 == [m EXCEPT !.aliveE = @ \ {e},
                        !.reg = SelectSeq(@, LAMBDA x : ~(x.kd \in EntKinds /\ x.e = e)),
                        !.pendRem = @ \o remseq,
                        !.pendDesp = IF e \in m.trk THEN Append(@, [e |-> e, seen |-> FALSE, tree |-> InTree(m)]) ELSE @,
                        !.trk = @ \ {e},
                        !.comp = [ k \in DOMAIN @ |-> IF k[1] = e THEN 0 ELSE @[k] ],
                        !.elocal = IF e \in DOMAIN @ THEN [@ EXCEPT ![e] = 0] ELSE @]
    IN Redoom(m1)

(* despawn_recursive: listed children first, then the entity; nothing happens below a child that is already gone *)
RECURSIVE KillEntityRec(_, _)
KillEntityRec(m, e) ==
    IF e \notin m.aliveE THEN m
    ELSE LET c == IF e + 1 <= m.hier /\ e + 1 <= m.nent THEN e + 1 ELSE 0
         IN KillEntity(IF c # 0 THEN KillEntityRec(m, c) ELSE m, e)

(* component c removed from living entity e *)
RemoveComp(m, e, c) ==
    IF Get(m.comp, <<e, c>>, 0) = 0 THEN m
    ELSE [m EXCEPT !.comp = Put(@, <<e, c>>, 0),
                   !.pendRem = Append(@, [c |-> c, e |-> e, seen |-> FALSE, tree |-> InTree(m),
                        then |-> { x.id : x \in Range(RegsFor(m, "rem", c, e)) }])]

----------------------------------------------------------------------------
(* expected reader view of the run caused by command record c (C03) *)

ExpViewNt(c, nt) == IF c.kind = "sysev" /\ nt = 1 THEN <<>> ELSE
    CASE c.kind = "bc"     -> << <<"bc", c.ty, 0, c.p>> >>
      [] c.kind = "eev"    -> << <<"ee", c.ty, c.e, c.p>> >>
      [] c.kind = "sysev"  -> << <<"se", 1, 0, c.p>> >>
      [] c.kind = "ereact" -> << <<c.rk, c.ty, c.e, 0>> >>
      [] c.kind = "desp"   -> << <<"desp", 0, c.e, 0>> >>
      [] OTHER -> <<>>

ExpView(c) ==
    CASE c.kind = "bc"     -> << <<"bc", c.ty, 0, c.p>> >>
      [] c.kind = "eev"    -> << <<"ee", c.ty, c.e, c.p>> >>
      [] c.kind = "sysev"  -> << <<"se", 1, 0, c.p>> >>
      [] c.kind = "ereact" -> << <<c.rk, c.ty, c.e, 0>> >>
      [] c.kind = "desp"   -> << <<"desp", 0, c.e, 0>> >>
      [] OTHER -> <<>>

----------------------------------------------------------------------------
(* payload bookkeeping (C05) *)

PayRec(m, p) == Get(m.pay, p, [out |-> 0, dropped |-> FALSE, taken |-> FALSE, zero |-> FALSE])
ReleaseReader(m, c) ==
    (* the command c has been resolved (its run finished, or it was skipped): one reader less *)
    LET m1 == IF c.kind \in {"bc", "eev", "sysev"} /\ c.p # 0
              THEN [m EXCEPT !.pay = Put(@, c.p, [PayRec(m, c.p) EXCEPT !.out = IF @ > 0 THEN @ - 1 ELSE 0])]
              ELSE m
        m2 == IF c.kind = "desp"
              THEN Redoom([m1 EXCEPT !.pdr = RemoveFirst(@, LAMBDA x : x.s = c.s /\ x.e = c.e)])
              ELSE m1
    IN m2

----------------------------------------------------------------------------
(* handlers *)

OnCfg(m, o) ==
    LET base == o.nsys + o.nonce + o.nworld + o.neworld
        m0 == [m EXCEPT !.nsys = o.nsys, !.nonce = o.nonce, !.nworld = o.nworld, !.neworld = o.neworld, !.hier = o.hier, !.nent = o.nent,
                        !.alive = (1..o.nsys) \cup ((o.nsys + o.nonce + 1)..(base + Len(o.app))),
                        !.aliveE = 1..o.nent]
        \* reactors added with App::add_reactor: one system each, registered persistently
        m1 == FoldSeq(LAMBDA acc, i : AddReg(acc, base + i, o.app[i], FALSE), m0, [ i \in 1..Len(o.app) |-> i ])
    IN Chk(m1, o.appsys = Len(o.app), "C13", "two registrations of the same function share one system (fewer systems than registrations)")

OpName(op) == op[1]

(* other API paths to the same operation: the World extension methods called from a closure with `&mut World` (xbc, xeev,  *)
(* xsysev) and the single-entity accessors of ReactiveMut (smut, sset, sno: valid only when e is the one entity carrying  *)
(* the component) behave exactly like the plain op; specification and monitors work on the canonical name                *)
NormOp(op) ==
    LET n == op[1] IN
    CASE n = "xbc" -> <<"bc", op[2], op[3]>>
      [] n = "xeev" -> <<"eev", op[2], op[3], op[4]>>
      [] n = "xsysev" -> <<"sysev", op[2], op[3]>>
      [] n = "xres" -> <<"res", op[2]>>
      [] n = "smut" -> <<"mut", op[2], op[3], op[4]>>
      [] n = "sset" -> <<"set", op[2], op[3], op[4]>>
      [] n = "sno" -> <<"noreact", op[2], op[3], op[4]>>
      \* immediate calls from the body of an exclusive system (not queued: they run nested in the body, at once)
      [] n = "irun" -> <<"run", op[2]>>
      [] n = "isysev" -> <<"sysev", op[2], op[3]>>
      [] n = "ibc" -> <<"bc", op[2], op[3]>>
      [] n = "ieev" -> <<"eev", op[2], op[3], op[4]>>
      [] OTHER -> op
ImmOps == {"irun", "isysev", "ibc", "ieev"}

(* effects and return-value checks that happen when the op is issued (body time) *)
OnIssue(m, o) ==
    IF o.ret = -9 THEN m ELSE
    LET op == NormOp(o.op)
        n == OpName(op)
        key == <<o.r, o.i>>
        m0 == [m EXCEPT !.ops = Put(@, key, op), !.rets = Put(@, key, o.ret),
                        !.immk = IF o.op[1] \in ImmOps THEN @ \cup {key} ELSE @]
        newpay(p) == [out |-> 0, dropped |-> FALSE, taken |-> FALSE, zero |-> FALSE]
    IN CASE n = "bc"    -> [m0 EXCEPT !.pay = Put(@, op[3], newpay(op[3]))]
         [] n = "eev"   -> [m0 EXCEPT !.pay = Put(@, op[4], newpay(op[4]))]
         [] n = "sysev" -> [m0 EXCEPT !.pay = Put(@, op[3], newpay(op[3]))]
         [] n = "sysevsig" -> [m0 EXCEPT !.pay = Put(@, op[3], newpay(op[3])), !.sig = Put(@, op[3], op[4])]
         [] n = "reg"   -> IF op[5] > 0 THEN [m0 EXCEPT !.tok = Put(@, op[5], [s |-> op[3], b |-> op[4]])] ELSE m0
         \* the last signal of a reference-counted system command was dropped: the next collection must despawn it
         [] n = "rcdrop" -> IF o.ret = 1 THEN [m0 EXCEPT !.doomed = @ \cup {op[2]}] ELSE m0
         [] n = "on"    -> IF op[5] > 0 THEN [m0 EXCEPT !.tok = Put(@, op[5], [s |-> op[3], b |-> op[4]])] ELSE m0
         [] n = "once"  -> [m0 EXCEPT !.tok = Put(@, op[4], [s |-> op[2], b |-> op[3]]),
                                      !.oncetok = Put(@, op[2], op[3])]
         [] n \in {"mut", "noreact"} ->
                LET cur == Get(m.comp, <<op[2], op[3]>>, 0)
                    m1 == Chk(m0, (o.ret = 1) <=> (cur # 0), "C14", "get_mut result does not match component presence")
                IN IF cur # 0 /\ o.ret = 1 THEN [m1 EXCEPT !.comp = Put(@, <<op[2], op[3]>>, op[4])] ELSE m1
         [] n = "set" ->
                LET cur == Get(m.comp, <<op[2], op[3]>>, 0)
                    want == IF cur # 0 /\ (cur % 100) # (op[4] % 100) THEN cur ELSE -1      \* values equal modulo 100 compare equal
                    m1 == Chk(m0, o.ret = want, "C14", "set_if_neq returned the wrong old value")
                IN IF o.ret # -1 THEN [m1 EXCEPT !.comp = Put(@, <<op[2], op[3]>>, op[4])] ELSE m1
         [] n \in {"resmut", "resno"} -> [m0 EXCEPT !.res = Put(@, op[2], op[3])]
         [] n = "resset" ->
                LET cur == Get(m.res, op[2], 0)
                    want == IF (cur % 100) # (op[3] % 100) THEN cur ELSE -1
                    m1 == Chk(m0, o.ret = want, "C14", "resource set_if_neq returned the wrong old value")
                IN IF o.ret # -1 THEN [m1 EXCEPT !.res = Put(@, op[2], op[3])] ELSE m1
         [] n = "ins" -> Chk(m0, (o.ret = 1) <=> (op[2] \in m.aliveE), "C14", "insert queued/skipped against entity liveness")
         [] n = "setlocal" ->
                LET t == Top(m)
                IN IF o.ret = 1 /\ t.f = "cmd" /\ t.k \in DOMAIN m.cmd THEN [m0 EXCEPT !.elocal = Put(@, m.cmd[t.k].e, op[2])] ELSE m0
         [] OTHER -> m0

(* number and kind of trigger dispatches the op must cause directly (C14, C01); -1 = not checked *)
ExpSched(m, op, ret) ==
    LET n == OpName(op) IN
    CASE n = "bc" -> <<1, "bc">>
      [] n = "eev" -> <<1, "eev">>
      [] n \in {"res", "resmut"} -> <<1, "res">>
      [] n = "resset" -> <<IF ret # -1 THEN 1 ELSE 0, "res">>
      [] n = "ins" -> <<IF ret = 1 /\ op[2] \in m.aliveE THEN 1 ELSE 0, "ins">>
      [] n = "mut" -> <<IF ret = 1 THEN 1 ELSE 0, "mut">>
      [] n = "set" -> <<IF ret # -1 THEN 1 ELSE 0, "mut">>
      [] n = "trig" -> <<1, "mut">>
      [] OTHER -> <<0, "">>

(* shadow effects of the op at the moment its commands are applied *)
NamesDead(m, b) == \E i \in DOMAIN b : KeyOf(b[i]).e # 0 /\ KeyOf(b[i]).e \notin m.aliveE
ApplyEffects(m0, op, ret) ==
    LET n == OpName(op)
        bun == CASE n \in {"reg", "on"} -> op[4]
                 [] n \in {"once", "wadd", "wrem", "erem"} -> op[3]
                 [] n = "revoke" -> IF op[2] \in DOMAIN m0.tok THEN m0.tok[op[2]].b ELSE <<>>
                 [] n = "eadd" -> << <<"emut", op[3], 1>> >>
                 [] OTHER -> <<>>
        m == IF NamesDead(m0, bun) THEN [m0 EXCEPT !.deadop = TRUE] ELSE m0
    IN
    CASE n = "reg" -> AddReg(m, op[3], op[4], op[2] # "persistent")
      [] n = "once" -> AddReg([m EXCEPT !.alive = @ \cup {op[2]}, !.once = @ \cup {op[2]}], op[2], op[3], TRUE)
      [] n = "on" -> AddReg([m EXCEPT !.alive = @ \cup {op[3]}], op[3], op[4], op[2] # "persistent")
      [] n = "revoke" -> IF op[2] \in DOMAIN m.tok THEN Revoke(m, m.tok[op[2]].s, m.tok[op[2]].b) ELSE m
      [] n = "desp" -> IF ret = 1 /\ op[2] \in m.aliveE THEN KillEntity(m, op[2]) ELSE m
      [] n = "desprec" -> IF ret = 1 THEN KillEntityRec(m, op[2]) ELSE m
      [] n = "xdesp" -> IF op[2] \in m.aliveE THEN KillEntity(m, op[2]) ELSE m
      [] n = "xdesprec" -> KillEntityRec(m, op[2])
      [] n = "xrm" -> IF op[2] \in m.aliveE THEN RemoveComp(m, op[2], op[3]) ELSE m
      [] n = "despsys" -> IF ret = 1 THEN KillSys(m, op[2]) ELSE m
      [] n = "rm" -> IF ret = 1 /\ op[2] \in m.aliveE THEN RemoveComp(m, op[2], op[3]) ELSE m
      [] n = "ins" -> IF ret = 1 /\ op[2] \in m.aliveE THEN [m EXCEPT !.comp = Put(@, <<op[2], op[3]>>, op[4])] ELSE m
      [] n = "wadd" -> IF ret = 1 THEN AddReg(m, WSys(m, op[2]), op[3], FALSE) ELSE m
      [] n = "wrem" -> IF ret = 1 THEN Revoke(m, WSys(m, op[2]), op[3]) ELSE m
      [] n = "eadd" ->
            IF ret = 1
            THEN LET m1 == IF op[3] \in m.aliveE THEN [m EXCEPT !.elocal = Put(@, op[3], op[4])] ELSE m
                 IN AddReg(m1, EWSys(m), << <<"emut", op[3], 1>>, <<"eev", op[3], 1>>, <<"erem", op[3], 1>> >>, FALSE)
            ELSE m
      [] n = "erem" ->
            IF ret = 1
            THEN LET m1 == Revoke(m, EWSys(m), op[3])
                     ents == { KeyOf(op[3][i]).e : i \in DOMAIN op[3] } \ {0}
                     keep(e) == \E x \in Range(m1.reg) : x.s = EWSys(m) /\ x.kd \in EntKinds /\ x.e = e
                 IN [m1 EXCEPT !.elocal = [ e \in DOMAIN @ |-> IF e \in ents /\ e \in m.aliveE /\ ~keep(e) THEN 0 ELSE @[e] ]]
            ELSE m
      [] OTHER -> m

OnApply(m, o) ==
    LET key == <<o.r, o.i>>
        known == key \in DOMAIN m.ops
        op == IF known THEN m.ops[key] ELSE <<"unknown">>
        ret == Get(m.rets, key, 0)
        t == Top(m)
        imm == key \in m.immk
        okpos == IF o.r > 0
                 THEN t.f = "cmd" /\ t.r = o.r /\ (IF imm THEN ~t.bd ELSE t.bd) /\ o.i > t.lastop
                 ELSE Len(m.stack) = 0 /\ o.i > m.drvlast
        m1 == Chk(Chk(m, known, "C09", "apply marker of an op that was never issued"),
                  okpos, "C09", "op applied out of order or outside its run's command scope")
        \* an exclusive system queued its reader cleanup as a world command: the first immediate call flushes it, so from here on
        \* the run can read nothing any more - its reading is over and the payload may be released
        early == imm /\ o.r > 0 /\ t.f = "cmd" /\ ~t.rel /\ t.k \in DOMAIN m1.cmd
        m1r == IF early THEN ReleaseReader(m1, m1.cmd[t.k]) ELSE m1
        m2 == IF o.r > 0 /\ t.f = "cmd" THEN SetTop(m1r, [t EXCEPT !.lastop = o.i, !.rel = IF early THEN TRUE ELSE @]) ELSE [m1r EXCEPT !.drvlast = o.i]
        ex == ExpSched(m2, op, ret)
        m3 == ApplyEffects(m2, op, ret)
    IN Push(m3, [f |-> "op", r |-> o.r, i |-> o.i, ns |-> 0, exp |-> ex[1], etr |-> ex[2], op |-> op])

OwedAt(m, lvl) == SelectSeq(m.owed, LAMBDA x : x.lvl = lvl)

OnDone(m, o) ==
    LET t == Top(m) IN
    IF ~(t.f = "op" /\ t.r = o.r /\ t.i = o.i)
    THEN V(m, "C09", "done marker does not close the innermost open op")
    ELSE
    LET n == OpName(t.op)
        acc == n \in {"resmut", "resset", "resno", "ins", "mut", "set", "noreact", "trig", "rm", "xrm"}
        m1a0 == Chk(m, t.ns = t.exp, IF acc THEN "C14" ELSE "C01", "op caused the wrong number of trigger dispatches")
        \* an explicit resource trigger call is also one of C14's "explicit trigger calls"
        m1a == IF t.ns # t.exp /\ n = "res" THEN V(m1a0, "C14", "op caused the wrong number of trigger dispatches") ELSE m1a0
        m1 == IF t.ns # t.exp /\ n = "ins" /\ t.op[2] \notin m.aliveE
              THEN V(m1a, "C18", "an insertion on a despawned entity dispatched a reaction") ELSE m1a
        left == OwedAt(m1, Len(m1.stack))
        m2 == IF Len(left) = 0 THEN m1
              ELSE V2([m1 EXCEPT !.owed = SelectSeq(@, LAMBDA x : x.lvl # Len(m1.stack))],
                      "C02", "C09", "a scheduled reaction did not run in-line before the next command")
        p == IF n = "bc" THEN t.op[3] ELSE IF n = "eev" THEN t.op[4] ELSE 0
        m3 == IF p # 0 /\ PayRec(m2, p).zero
              THEN Chk(m2, PayRec(m2, p).dropped, "C05", "event without listeners was not dropped immediately")
              ELSE m2
    IN Pop(m3)

(* bag comparison restricted to living reactors *)
BagEqAlive(m, a, b) == \A s \in m.alive : CountEq(a, s) = CountEq(b, s)
BagLeAlive(m, a, b) == \A s \in m.alive : CountEq(a, s) <= CountEq(b, s)
SysOf(regs) == [ i \in DOMAIN regs |-> regs[i].s ]

(* a removal / despawn reaction scheduled for a living reactor that has no matching registration (any more): when the key was *)
(* revoked that is C06, when the reactor is a one-off reactor that is C15 ("revoked before any trigger fires it never runs") *)
PolledSurplus(m, o, want) ==
    LET extra == { s \in m.alive : CountEq(o.reactors, s) > CountEq(want, s) }
        rev == \E s \in extra : \E rv \in m.revoked : rv[1] = s /\ Matches([kd |-> rv[2], ty |-> rv[3], e |-> rv[4]], o.trig, o.ty, o.ent)
        m1 == IF rev THEN V(m, "C06", "a revoked registration was scheduled") ELSE m
    IN IF \E s \in extra : s \in m.once THEN V(m1, "C15", "a one-off reactor was scheduled by a trigger it no longer has") ELSE m1

OnSched(m, o) ==
    LET t == Top(m)
        inop == t.f = "op"
        m0 == IF inop THEN SetTop(m, [t EXCEPT !.ns = @ + 1]) ELSE m
        lvl == Len(m.stack)
        owe == [ i \in DOMAIN o.reactors |->
                  [trig |-> o.trig, ty |-> o.ty, e |-> o.ent, d |-> o.data, s |-> o.reactors[i], lvl |-> lvl] ]
        want == SysOf(RegsFor(m, o.trig, o.ty, o.ent))
    IN
    IF o.trig \in {"bc", "eev", "res", "ins", "mut"}
    THEN
        LET kindok == inop /\ t.etr = o.trig
            m1 == Chk(m0, kindok, IF o.trig \in {"ins", "mut"} THEN "C14" ELSE "C01", "trigger dispatched by an op that should not cause it")
            surplus == \E s \in m.alive : CountEq(o.reactors, s) > CountEq(want, s)
            deficit == \E s \in m.alive : CountEq(o.reactors, s) < CountEq(want, s)
            revhit == \E s \in m.alive : CountEq(o.reactors, s) > CountEq(want, s)
                        /\ \E rv \in m.revoked : rv[1] = s /\ Matches([kd |-> rv[2], ty |-> rv[3], e |-> rv[4]], o.trig, o.ty, o.ent)
            m2 == IF surplus THEN V(m1, "C01", "a reactor without a matching live registration was scheduled") ELSE m1
            m3 == IF deficit THEN V(m2, "C01", "a matching live registration was not scheduled") ELSE m2
            m4 == IF revhit THEN V(m3, "C06", "a revoked registration was scheduled") ELSE m3
            m5 == IF deficit /\ m.anyrev THEN V(m4, "C06", "a registration not named by any revocation stopped working") ELSE m4
            m6 == IF (surplus \/ deficit) /\ o.ent # 0 /\ o.ent \notin m.aliveE
                  THEN V(m5, "C18", "dispatch for a dead entity went wrong") ELSE m5
            \* key check and payload bookkeeping for events
            p == IF inop /\ OpName(t.op) = "bc" THEN t.op[3] ELSE IF inop /\ OpName(t.op) = "eev" THEN t.op[4] ELSE 0
            keyok == IF ~inop THEN TRUE
                     ELSE CASE OpName(t.op) = "bc" -> o.ty = t.op[2]
                            [] OpName(t.op) = "eev" -> o.ty = t.op[3] /\ o.ent = t.op[2]
                            [] OpName(t.op) \in {"res", "resmut", "resset"} -> o.ty = t.op[2]
                            [] OpName(t.op) \in {"ins", "mut", "set", "trig"} -> o.ty = t.op[3] /\ o.ent = t.op[2]
                            [] OTHER -> TRUE
            m7 == Chk(m6, keyok, "C01", "trigger dispatched under the wrong type or entity")
            m8 == IF p # 0
                  THEN [m7 EXCEPT !.pay = Put(@, p, [PayRec(m7, p) EXCEPT !.out = Len(o.reactors), !.zero = (Len(o.reactors) = 0)]),
                                  !.dinfo = IF o.data # 0 THEN Put(@, o.data, [ty |-> o.ty, e |-> o.ent, p |-> p]) ELSE @]
                  ELSE m7
            deadl == p # 0 /\ \E x \in Range(RegsFor(m, o.trig, o.ty, o.ent)) : x.s \notin m.alive
            m8b == IF deadl THEN [m8 EXCEPT !.pdead = @ \cup {p}] ELSE m8
            m9 == Chk(m8b, (o.data # 0) <=> (Len(o.reactors) > 0 /\ o.trig \in {"bc", "eev"}), "C05",
                      "event bookkeeping entity does not match the number of listeners")
        IN [m9 EXCEPT !.owed = @ \o owe]
    ELSE IF o.trig = "rem"
    THEN
        LET idx == FirstIdx(m.pendRem, LAMBDA x : x.c = o.ty /\ x.e = o.ent)
            m1 == Chk(m0, t.f = "poll", "C08", "removal reaction scheduled outside a poll")
        IN IF idx = 0
           THEN [V(m1, "C08", "removal reaction for a component that was not removed (or reported twice)") EXCEPT !.owed = @ \o owe]
           ELSE
             LET pr == m.pendRem[idx]
                 thr == SysOf(SelectSeq(m.reg, LAMBDA x : x.id \in pr.then /\ Matches(x, "rem", o.ty, o.ent)))
                 m2 == Chk(m1, BagLeAlive(m, thr, o.reactors), "C08", "a removal reactor registered throughout was not scheduled")
                 m3 == Chk(m2, BagLeAlive(m, o.reactors, want), "C08", "a reactor without a live removal registration was scheduled")
             IN [PolledSurplus(m3, o, want) EXCEPT !.pendRem = RemoveAt(@, idx), !.owed = @ \o owe]
    ELSE IF o.trig = "desp"
    THEN
        LET idx == FirstIdx(m.pendDesp, LAMBDA x : x.e = o.ent)
            m1 == Chk(m0, t.f = "poll", "C08", "despawn reaction scheduled outside a poll")
            m2 == IF idx = 0
                  THEN LET v1 == V(m1, "C08", "despawn reaction for an entity that is alive or was already reported")
                       IN IF m.anyrev THEN V(v1, "C06", "after a revocation, a despawn reaction was scheduled for an entity that is alive (revocation is not local)") ELSE v1
                  ELSE [m1 EXCEPT !.pendDesp = RemoveAt(@, idx)]
            m3 == PolledSurplus(Chk(m2, BagEqAlive(m, o.reactors, want), "C08", "despawn reactors scheduled do not match the registrations"), o, want)
            taken == SelectSeq(m.reg, LAMBDA x : x.kd = "desp" /\ x.e = o.ent)
            newpdr == [ i \in DOMAIN taken |-> [s |-> taken[i].s, e |-> o.ent, h |-> taken[i].h] ]
        IN [m3 EXCEPT !.reg = SelectSeq(@, LAMBDA x : ~(x.kd = "desp" /\ x.e = o.ent)),
                      !.pdr = @ \o newpdr, !.owed = @ \o owe]
    ELSE V(m0, "C00", "unknown trigger kind")

OnCmd(m, o) ==
    LET t == Top(m)
        inop == t.f = "op"
        sr == IF inop THEN t.r ELSE 0
        si == IF inop THEN t.i ELSE 0
        base == [NoCmd EXCEPT !.s = o.sys, !.kind = o.kind, !.st = "reached", !.sr = sr, !.si = si]
    IN
    IF o.kind \in {"run", "sysev"}
    THEN
        LET n == IF inop THEN OpName(t.op) ELSE ""
            okrun == inop /\ ((o.kind = "run" /\ n = "run" /\ t.op[2] = o.sys)
                           \/ (o.kind = "run" /\ n = "wrun" /\ WSys(m, t.op[2]) = o.sys)
                           \/ (o.kind = "sysev" /\ n \in {"sysev", "sysevsig"} /\ t.op[2] = o.sys))
            p == IF inop /\ n \in {"sysev", "sysevsig"} THEN t.op[3] ELSE 0
            m1 == Chk(m, okrun, "C09", "system command applied outside the op that queued it")
            m2 == IF p # 0 THEN [m1 EXCEPT !.pay = Put(@, p, [PayRec(m1, p) EXCEPT !.out = 1])] ELSE m1
        IN [m2 EXCEPT !.last = [base EXCEPT !.p = p]]
    ELSE
        LET want(x) == x.s = o.sys /\
                CASE o.kind = "bc" -> x.trig = "bc" /\ x.d = o.data
                  [] o.kind = "eev" -> x.trig = "eev" /\ x.d = o.data /\ x.e = o.src
                  [] o.kind = "res" -> x.trig = "res"
                  [] o.kind = "ereact" -> x.trig = o.rk /\ x.ty = o.rt /\ x.e = o.src
                  [] o.kind = "desp" -> x.trig = "desp" /\ x.e = o.src
                  [] OTHER -> FALSE
            inner == FirstIdx(m.owed, LAMBDA x : want(x) /\ x.lvl = Len(m.stack))
            idx == IF inner # 0 THEN inner ELSE FirstIdx(m.owed, want)
            di == Get(m.dinfo, o.data, [ty |-> 0, e |-> 0, p |-> 0])
            rec == [base EXCEPT !.ty = IF o.kind \in {"bc", "eev"} THEN di.ty ELSE o.rt,
                                !.e = o.src, !.d = o.data, !.p = di.p, !.rk = o.rk,
                                !.sr = IF idx # 0 /\ m.owed[idx].lvl > 0 /\ m.stack[m.owed[idx].lvl].f = "op" THEN m.stack[m.owed[idx].lvl].r ELSE 0,
                                !.si = IF idx # 0 /\ m.owed[idx].lvl > 0 /\ m.stack[m.owed[idx].lvl].f = "op" THEN m.stack[m.owed[idx].lvl].i ELSE 0]
            m1 == IF idx = 0 THEN V(m, "C01", "a reaction command was applied that no trigger dispatch scheduled")
                  ELSE Chk([m EXCEPT !.owed = RemoveAt(@, idx)], m.owed[idx].lvl = Len(m.stack), "C09",
                           "a scheduled reaction ran outside the scope of the trigger that caused it")
        IN [m1 EXCEPT !.last = rec]

OnEnter(m, o) ==
    IF o.k \in DOMAIN m.cmd
    THEN LET c == m.cmd[o.k]
             m1 == Chk(m, c.st = "replaying", "C02", "a command was entered a second time without having been postponed")
         IN Push(m1, [f |-> "cmd", k |-> o.k, s |-> c.s, took |-> FALSE, r |-> 0, bd |-> FALSE, fin |-> FALSE, lastop |-> 0, idx |-> o.idx, rel |-> FALSE])
    ELSE LET ok == m.last.kind # "none" /\ m.last.s = o.sys
             c == IF ok THEN m.last ELSE [NoCmd EXCEPT !.s = o.sys, !.kind = "run", !.st = "reached"]
             m1 == Chk(m, ok, "C02", "runner entered without a command application")
             \* finding F1: another delivery to the same system is applied but has neither started nor been postponed yet
             \* (it is inside its runner's entry poll, which is dispatching this one)
             inflight == { j \in DOMAIN m.cmd : m.cmd[j].s = c.s /\ m.cmd[j].st = "reached" }
             m2 == IF inflight # {} /\ (InPoll(m) \/ c.s \in m.taintsys) THEN [m1 EXCEPT !.taint = @ \cup inflight \cup {o.k}, !.taintsys = @ \cup {c.s}] ELSE m1
         IN Push([m2 EXCEPT !.cmd = Put(@, o.k, [c EXCEPT !.seq = o.k]), !.last = NoCmd],
                 [f |-> "cmd", k |-> o.k, s |-> c.s, took |-> FALSE, r |-> 0, bd |-> FALSE, fin |-> FALSE, lastop |-> 0, idx |-> o.idx, rel |-> FALSE])

SetCmd(m, k, st) == [m EXCEPT !.cmd = [@ EXCEPT ![k].st = st]]

OnAbort(m, o) ==
    IF o.k \notin DOMAIN m.cmd THEN V(m, "C00", "abort of an unknown command") ELSE
    LET c == m.cmd[o.k]
        m1 == Chk(m, c.s \notin m.alive, "C02", "a command was skipped although its target system exists")
        m2 == Chk(m1, c.st \in {"reached", "replaying"}, "C02", "a command was aborted in an unexpected state")
    IN ReleaseReader(SetCmd(m2, o.k, "aborted"), c)

Executing(m, s) == \E i \in DOMAIN m.stack : m.stack[i].f = "cmd" /\ m.stack[i].s = s /\ m.stack[i].took /\ ~m.stack[i].fin

OnPostpone(m, o) ==
    IF o.k \notin DOMAIN m.cmd THEN V(m, "C00", "postpone of an unknown command") ELSE
    LET c == m.cmd[o.k]
        m1 == Chk(m, Executing(m, c.s), "C02", "a command was postponed although its target is not executing")
        m2 == Chk(m1, c.st = "reached", "C02", "a command was postponed twice")
    IN SetCmd(m2, o.k, "postponed")

OlderPostponed(m, k) ==
    \E j \in DOMAIN m.cmd : j # k /\ m.cmd[j].seq < m.cmd[k].seq /\ m.cmd[j].s = m.cmd[k].s
                            /\ m.cmd[j].sr = m.cmd[k].sr /\ m.cmd[k].sr # 0 /\ m.cmd[j].st = "postponed"

OnTake(m, o) ==
    IF o.k \notin DOMAIN m.cmd THEN V(m, "C00", "take of an unknown command") ELSE
    LET c == m.cmd[o.k]
        t == Top(m)
        m1 == Chk(m, c.s \in m.alive, "C18", "a despawned system was run")
        m2 == Chk(m1, c.st \in {"reached", "replaying"}, "C02", "a command was run in an unexpected state")
        m3 == m2
        m4 == Chk(m3, ~Executing(m, c.s), "C02", "a system was run while it is already executing")
        m5 == IF t.f = "cmd" /\ t.k = o.k THEN SetTop(m4, [t EXCEPT !.took = TRUE]) ELSE V(m4, "C09", "take outside its command")
        \* deliveries to the same system that were applied earlier and have not started: only possible when a poll
        \* runs a reaction in-line for a system that has a delivery between "applied" and "started"
        older == { j \in DOMAIN m.cmd : j # o.k /\ m.cmd[j].s = c.s /\ m.cmd[j].st \in Pending /\ m.cmd[j].seq < c.seq }
        \* (a REPLAYED command with an older pending one is simply out of order - not this finding)
        \* (the finding propagates: a command that starts while an already affected older delivery is still pending takes its entry)
        m6 == IF older # {} /\ ((c.st = "reached" /\ InPoll(m)) \/ older \cap m.taint # {} \/ c.s \in m.taintsys)
              THEN [m5 EXCEPT !.taint = @ \cup older \cup {o.k}, !.taintsys = @ \cup {c.s}] ELSE m5
    IN SetCmd(m6, o.k, "running")

Elems(v) == { v[i] : i \in DOMAIN v }

OnRun(m, o) ==
    LET t == Top(m)
        ok == t.f = "cmd" /\ t.took /\ t.r = 0 /\ t.s = o.sys
    IN IF ~ok THEN V(m, "C02", "a system ran without a command that was taken for it") ELSE
    LET c0 == m.cmd[t.k]
        cands == { j \in DOMAIN m.cmd : j # t.k /\ m.cmd[j].s = c0.s /\ m.cmd[j].st \in Pending
                                          /\ Len(o.view) > 0 /\ ExpViewNt(m.cmd[j], o.nt) = o.view }
        swap == o.view # ExpViewNt(c0, o.nt) /\ cands # {}
        jj == CHOOSE j \in cands : \A j2 \in cands : m.cmd[j].seq <= m.cmd[j2].seq
        mS == IF swap THEN SwapData(m, t.k, jj) ELSE m
        c == mS.cmd[t.k]
        n == Get(m.runs, o.sys, 0) + 1
        m1 == [SetTop(mS, [t EXCEPT !.r = o.r]) EXCEPT !.runs = Put(@, o.sys, n)]
        m2 == Chk(m1, o.local = n /\ o.cap = n, "C13", "system state (local or captured) is not the one left by its previous run")
        m3 == Chk(m2, ~(o.sys \in m.once /\ n > 1), "C15", "a one-off reactor ran twice")
        exp == ExpViewNt(c, o.nt)
        bad == o.view # exp
        surplus == \E x \in Elems(o.view) : x \notin Elems(exp)
        other == \E j \in DOMAIN m.cmd : j # t.k /\ m.cmd[j].s = c.s /\ m.cmd[j].sr = c.sr /\ c.sr # 0
                        /\ Len(ExpView(m.cmd[j])) > 0 /\ ExpView(m.cmd[j])[1] \in Elems(o.view)
        \* once a polled reaction has taken another delivery's entry, every later delivery to that system in the same tree gets
        \* the entry of its predecessor (the entries of the system stay shifted by one until they have all been consumed)
        tainted == t.k \in m.taint \/ c0.s \in m.taintsys
        m4 == IF bad THEN V(m3, "C03", IF tainted THEN F1Why
                                       ELSE "a run did not see exactly the data of the event that caused it") ELSE m3
        \* a removal / despawn reaction must carry the right entity (C08)
        m4b == IF bad /\ ~tainted /\ (c.kind = "desp" \/ (c.kind = "ereact" /\ c.rk = "rem"))
               THEN V(m4, "C08", "a removal or despawn reaction did not carry the entity it was scheduled for") ELSE m4
        m5 == IF surplus THEN V(m4b, "C04", IF tainted THEN F1Why
                                           ELSE "a run saw event data that does not belong to it") ELSE m4
        m6a == IF bad /\ other THEN V(m5, "C12", IF tainted THEN F1Why ELSE "a run saw the data of another delivery from the same sender") ELSE m5
        late == OlderPostponed(mS, t.k)
        lateWhy == IF tainted THEN F1Why ELSE "a delivery was processed before an earlier one from the same run to the same system"
        m6b == IF late THEN V2(m6a, "C12", "C09", lateWhy) ELSE m6a
        \* the exchange of data between two pending deliveries is only invisible while order is respected
        m6c == IF late /\ swap THEN V(m6b, "C03", IF tainted THEN F1Why ELSE "a run showed the data of a later delivery of the same sender while the earlier one was still pending") ELSE m6b
        \* ... and the payload it shows is then released while the run scheduled to read it has yet to happen
        m6 == IF late /\ swap /\ ~tainted /\ c.kind \in {"bc", "eev", "sysev"}
              THEN V(m6c, "C05", "a payload was read and released by an earlier delivery's run while the run scheduled to read it was still pending") ELSE m6c
        m7 == IF \E x \in Elems(o.view) : x[1] = "se2" THEN V(m6, "C04", "a system event was taken twice") ELSE m6
        \* entity world reactor: local data of the reacting entity
        isEW == m.neworld > 0 /\ o.sys = EWSys(m)
        m8 == IF isEW /\ c.kind \in {"eev", "ereact"}
              THEN IF c.e \notin m.aliveE
                   THEN V2(m7, "C16", "C18", F2Why)
                   ELSE IF Get(m.elocal, c.e, 0) = 0 /\ o.el = <<-1, -1>>
                   THEN V(m7, "C16", F2bWhy)       \* same defect: the pending reaction outlives the entity's membership
                   ELSE Chk(m7, o.el = <<c.e, Get(m.elocal, c.e, 0)>>, "C16", IF tainted THEN F1Why ELSE "entity world reactor saw the wrong local data")
              ELSE m7
    IN m8

OnBodyend(m, o) ==
    LET t == Top(m) IN
    IF ~(t.f = "cmd" /\ t.r = o.r) THEN V(m, "C09", "body end outside its run") ELSE
    LET c == m.cmd[t.k]
        m1 == SetCmd(SetTop(m, [t EXCEPT !.bd = TRUE]), t.k, "ran")
    IN IF t.rel THEN m1 ELSE ReleaseReader(m1, c)

OnFinish(m, o, dropped) ==
    LET t == Top(m) IN
    IF ~(t.f = "cmd" /\ t.s = o.sys /\ t.took) THEN V(m, "C09", "callback returned outside its command") ELSE
    LET m1 == Chk(m, dropped <=> (o.sys \notin m.alive), "C02", "callback kept or dropped against the liveness of its system")
    IN SetTop(m1, [t EXCEPT !.fin = TRUE])

OnReplay(m, o) ==
    IF o.k \notin DOMAIN m.cmd THEN V(m, "C00", "replay of an unknown command") ELSE
    LET c == m.cmd[o.k]
        t == Top(m)
        m1 == Chk(m, c.st = "postponed", "C02", "a command that was not postponed was replayed")
        m2 == Chk(m1, t.f = "cmd" /\ t.fin /\ t.s = c.s, "C09", "a postponed command was not replayed right after its target finished")
    IN SetCmd(m2, o.k, "replaying")

OnDiscard(m, o) ==
    IF o.k \notin DOMAIN m.cmd THEN V(m, "C00", "discard of an unknown command") ELSE
    LET c == m.cmd[o.k]
        m1 == Chk(m, c.st = "postponed", "C02", "a command that was not postponed was discarded")
        m2a == IF c.s \in m.alive THEN V2(m1, "C02", "C09", "a postponed command was discarded although its target system exists") ELSE m1
        \* ... and when it was a reaction, a matching live registration got no run for that trigger
        m2b == IF c.s \in m.alive /\ c.kind \in {"bc", "eev", "res", "ereact"}
               THEN V(m2a, "C01", "a reaction scheduled for a live registration was thrown away instead of run") ELSE m2a
        m2c == IF c.s \in m.alive /\ c.kind \in {"bc", "eev", "sysev"} /\ c.p # 0
               THEN V(m2b, "C05", "the payload of a delivery was released by discarding the delivery although its reader exists") ELSE m2b
        m2 == IF c.s \in m.alive /\ (c.kind = "desp" \/ (c.kind = "ereact" /\ c.rk = "rem"))
              THEN V(m2c, "C08", "a removal or despawn reaction was thrown away instead of run") ELSE m2c
    IN ReleaseReader(SetCmd(m2, o.k, "discarded"), c)

OnExit(m, o) ==
    LET t == Top(m) IN
    IF ~(t.f = "cmd" /\ t.k = o.k) THEN V(m, "C09", "command exit does not match the innermost open command") ELSE
    LET outer == \E i \in 1..(Len(m.stack) - 1) : m.stack[i].f = "cmd" /\ m.stack[i].s = t.s /\ m.stack[i].fin
        left == ~outer /\ \E j \in DOMAIN m.cmd : m.cmd[j].st = "postponed" /\ m.cmd[j].s = t.s
        m1 == IF t.took /\ left THEN V2(m, "C09", "C02", "a postponed command was not replayed when its target finished") ELSE m
        m2 == Chk(m1, ~t.took \/ t.fin, "C09", "command exit before the callback was returned")
    IN Pop(m2)

OnGc(m, o) ==
    (* garbage collection is a loop: despawning one entity may release the last handle of a reactor (or the last signal  *)
    (* of another entity), which the same collection then despawns too.  The record lists what was despawned, in order. *)
    LET step(acc, x) ==
            IF x > 100
            THEN LET e == x - 100
                     a1 == Chk(acc, e \in acc.doomedE, "C08", "garbage collection despawned an entity whose signal is still held")
                 IN [KillEntityRec(a1, e) EXCEPT !.doomedE = @ \ {e}]
            ELSE LET ok == x \in acc.doomed
                     a1 == Chk(acc, ok, "C07", "garbage collection despawned a reactor that still has a trigger (or is persistent)")
                     a2 == IF ~ok /\ x \in acc.once /\ x \notin acc.onceRan
                           THEN V(a1, "C15", "a one-off reactor was despawned before any of its triggers fired") ELSE a1
                 IN [a2 EXCEPT !.alive = @ \ {x}, !.doomed = @ \ {x}]
        m1 == FoldSeq(step, m, o.d)
        \* what was already doomed when the collection started must be gone now; what the collection itself doomed (by
        \* despawning an entity that carried the last handle / signal) may be collected now or by the next collection
        m2a == Chk(m1, (m.doomed \cap m.alive) \cap m1.alive = {}, "C07", "garbage collection missed a reactor whose last trigger is gone")
        m2 == IF (m.doomed \cap m.alive) \cap m1.alive \cap m.once # {}
              THEN V(m2a, "C15", "a one-off reactor without triggers (revoked before firing, or empty bundle) was not dropped") ELSE m2a
        m3 == Chk(m2, o.closed = 1, "C18", "garbage collection did not complete")
        m4 == Chk(m3, (m.doomedE \cap m.aliveE) \cap m3.aliveE = {}, "C08", "garbage collection missed an entity whose last signal was released")
    IN [m4 EXCEPT !.doomed = @ \cap m4.alive, !.doomedE = @ \cap m4.aliveE]

OnPoll(m, o) ==
    Push([m EXCEPT !.pendRem = [ i \in DOMAIN @ |-> [@[i] EXCEPT !.seen = TRUE] ],
                   !.pendDesp = [ i \in DOMAIN @ |-> [@[i] EXCEPT !.seen = TRUE] ]],
         [f |-> "poll"])

OnPollend(m, o) ==
    LET t == Top(m) IN
    IF t.f # "poll" THEN V(m, "C09", "poll end does not close a poll") ELSE
    LET left == OwedAt(m, Len(m.stack))
        m1 == IF Len(left) = 0 THEN m
              ELSE V2([m EXCEPT !.owed = SelectSeq(@, LAMBDA x : x.lvl # Len(m.stack))], "C02", "C08",
                      "a scheduled removal/despawn reaction did not run in the poll that found it")
    IN Pop(m1)

OnProbe(m, o) == Chk(m, o.view = <<>>, "C04", "event data visible outside the run it caused")

EvClass(k) == IF k \in {"bc", "eev"} THEN "ev" ELSE k
RECURSIVE DropExchange(_, _)
DropExchange(m, p) ==
    (* a pending reader of this payload, and a resolved delivery to the same system whose own payload is still held: the      *)
    (* framework released them in the other order (setup takes the oldest entry of the system, see SwapData) - exchange, and   *)
    (* repeat while it applies (several readers of one payload may each have been overtaken)                                  *)
    LET pr0 == PayRec(m, p)
        rd == { k \in DOMAIN m.cmd : m.cmd[k].p = p /\ m.cmd[k].st \in Pending }
        rs == { j \in DOMAIN m.cmd : m.cmd[j].st \in {"aborted", "discarded", "ran"} /\ m.cmd[j].p # 0 /\ m.cmd[j].p # p
                                       /\ ~PayRec(m, m.cmd[j].p).dropped
                                       /\ \E k \in rd : m.cmd[k].s = m.cmd[j].s /\ EvClass(m.cmd[k].kind) = EvClass(m.cmd[j].kind) }
    IN IF ~(pr0.out > 0 /\ ~pr0.taken /\ rs # {}) THEN m
       ELSE LET j == CHOOSE j \in rs : TRUE
                k == CHOOSE k \in rd : m.cmd[k].s = m.cmd[j].s /\ EvClass(m.cmd[k].kind) = EvClass(m.cmd[j].kind)
                pj == m.cmd[j].p
                m0 == SwapData(m, j, k)
            IN DropExchange([m0 EXCEPT !.pay = Put(Put(@, p, [pr0 EXCEPT !.out = @ - 1]), pj, [PayRec(m, pj) EXCEPT !.out = @ + 1])], p)

OnDrop(m, o) ==
    LET mS == DropExchange(m, o.p)
        pr == PayRec(mS, o.p)
        m1 == Chk(mS, ~pr.dropped, "C05", "payload dropped twice")
        m2 == Chk(m1, pr.out = 0 \/ pr.taken, "C05", "payload dropped while a scheduled reader has yet to run")
    IN [m2 EXCEPT !.pay = Put(@, o.p, [pr EXCEPT !.dropped = TRUE]),
                  !.doomedE = IF o.p \in DOMAIN m.sig THEN @ \cup {m.sig[o.p]} ELSE @]

OnTaken(m, o) ==
    LET pr == PayRec(m, o.p)
        m1 == Chk(m, ~pr.taken /\ ~pr.dropped, "C04", "system event payload taken twice")
    IN [m1 EXCEPT !.pay = Put(@, o.p, [pr EXCEPT !.taken = TRUE])]

OnSysdrop(m, o) ==
    Chk(m, o.sys \notin m.alive, "C13", "system state dropped while the system is registered")

OnOnceDespawn(m, o) ==
    LET m1 == [KillSys(m, o.sys) EXCEPT !.onceRan = @ \cup {o.sys}]
    IN IF o.sys \in DOMAIN m.oncetok THEN Revoke(m1, o.sys, m.oncetok[o.sys]) ELSE m1

(* quiescence between trees *)
OnQuiesce(m, o) ==
    LET m1 == Chk(m, o.counter = 0 /\ o.buffered = 0 /\ o.prepared = <<0, 0, 0, 0>> /\ o.reacting = <<0, 0, 0, 0>>
                       /\ o.held = 0 /\ o.missing = <<>>, "C11", "framework bookkeeping is not at rest between trees")
        m2 == Chk(m1, o.data = 0, "C05", "an event bookkeeping entity outlived its tree")
        m2b == Chk(m2, o.data = 0, "C11", "an event bookkeeping entity outlived its tree")
        m3 == Chk(m2b, Len(m.stack) = 0, "C09", "commands still open when the flush returned")
        unfinished == \E k \in DOMAIN m.cmd : m.cmd[k].st \in {"reached", "postponed", "replaying", "running"}
        m4a == Chk(m3, ~unfinished /\ Len(m.owed) = 0 /\ m.last.kind = "none", "C02", "a scheduled run had not happened when the flush returned")
        \* a command whose target is gone must have been skipped (which releases its payload) by now
        stale == \E k \in DOMAIN m.cmd : m.cmd[k].st \in {"reached", "postponed", "replaying"} /\ m.cmd[k].s \notin m.alive
        m4 == Chk(m4a, ~stale, "C18", "a command for a despawned target was neither skipped nor was its payload released")
        unrel == \E p \in DOMAIN m.pay : ~m.pay[p].dropped
        unrel0 == FALSE
        m5a == Chk(m4, ~unrel /\ ~unrel0, "C05", "an event payload was not released by the end of its tree")
        m5 == IF \E p \in m.pdead : p \in DOMAIN m.pay /\ ~m.pay[p].dropped
              THEN V(m5a, "C18", "the payload of an event that had a despawned listener was not released") ELSE m5a
        \* removals and despawns a completed poll should have reported
        \* a frame (`frame` and `clear` steps run App::update) ends with the scheduled poll: whatever is pending then counts as seen
        frameend == m.stepkind \in {"frame", "clear"}
        lateRem == \E i \in DOMAIN m.pendRem : (m.pendRem[i].seen \/ frameend)
                      /\ \E x \in Range(m.reg) : x.id \in m.pendRem[i].then /\ x.s \in m.alive
                            /\ Matches(x, "rem", m.pendRem[i].c, m.pendRem[i].e)
        lateDesp == \E i \in DOMAIN m.pendDesp : (m.pendDesp[i].seen \/ frameend)
                      /\ \E x \in Range(m.reg) : x.kd = "desp" /\ x.e = m.pendDesp[i].e /\ x.s \in m.alive
        \* (the notification is still waiting inside the framework and will run in some later tree: also residue, C11)
        m6a == IF lateRem THEN V2(m5, "C08", "C11", "a component removal was not reacted to by the poll that followed it") ELSE m5
        m6 == IF lateRem /\ m.anyrev THEN V(m6a, "C06", "a removal registration not named by any revocation stopped working") ELSE m6a
        m7a == IF lateDesp THEN V2(m6, "C08", "C11", "an entity despawn was not reacted to by the poll that followed it") ELSE m6
        \* removals and despawns that happened inside a reaction tree: every runner ends with a poll, so none may be
        \* left unreported when the outermost flush returns ("no later than the end of the enclosing tree")
        treeRem == \E i \in DOMAIN m.pendRem : m.pendRem[i].tree /\ ~m.pendRem[i].seen
                      /\ \E x \in Range(m.reg) : x.id \in m.pendRem[i].then /\ x.s \in m.alive
                            /\ Matches(x, "rem", m.pendRem[i].c, m.pendRem[i].e)
        treeDesp == \E i \in DOMAIN m.pendDesp : m.pendDesp[i].tree /\ ~m.pendDesp[i].seen
                      /\ \E x \in Range(m.reg) : x.kd = "desp" /\ x.e = m.pendDesp[i].e /\ x.s \in m.alive
        m7 == IF treeRem \/ treeDesp
              THEN V(V2(m7a, "C08", "C11", "a removal or despawn inside a reaction tree was still unreported when the tree ended"),
                     "C09", "a removal or despawn inside a reaction tree was still unreported when the tree ended")
              ELSE m7a
        \* liveness of systems and entities
        m8 == Chk(m7, Elems(o.alive_sys) = m.alive, "C07", "set of living reactors differs from what their triggers imply")
        m9 == Chk(m8, Elems(o.alive_ent) = m.aliveE, "C18", "set of living entities differs from the despawns applied")
        \* registration tables, modulo dead reactors
        tkeys == { <<x[1], x[2], x[3], x[4]>> : x \in Elems(o.tables) } \cup { <<x.kd, x.ty, x.e, x.s>> : x \in Range(m.reg) }
        tcount(k) == Cardinality({ i \in DOMAIN o.tables : <<o.tables[i][1], o.tables[i][2], o.tables[i][3], o.tables[i][4]>> = k })
        rcount(k) == Cardinality({ i \in DOMAIN m.reg : <<m.reg[i].kd, m.reg[i].ty, m.reg[i].e, m.reg[i].s>> = k })
        tabok == \A k \in tkeys : k[4] \in m.alive => tcount(k) = rcount(k)
        m10a == IF tabok THEN m9 ELSE V(IF m.anyrev THEN V(m9, "C06", "registration tables differ from registrations minus revocations") ELSE m9,
                                       "C01", "registration tables differ from registrations minus revocations")
        wsys == (m.nsys + m.nonce + 1)..(m.nsys + m.nonce + m.nworld + m.neworld)
        wtabok == \A k \in tkeys : k[4] \in wsys => tcount(k) = rcount(k)
        m10b == IF ~wtabok THEN V(m10a, "C16", "registrations of a world reactor differ from the triggers added minus those removed") ELSE m10a
        m10 == IF ~tabok /\ m.deadop THEN V(m10b, "C18", "registration tables are wrong after a register / revoke operation that named a despawned entity") ELSE m10b
        \* one-off reactors
        oncebad == \E s \in m.onceRan : s \in Elems(o.alive_sys) \/ (\E x \in Elems(o.tables) : x[4] = s)
        m11 == Chk(m10, ~oncebad, "C15", "a one-off reactor or one of its triggers survived its run")
        \* component and resource values (set_if_neq stores; noreact stores)
        compok == \A e \in m.aliveE : \A c \in 1..2 :
                     LET v == Get(m.comp, <<e, c>>, 0)
                         have == { x \in Elems(o.comps) : x[1] = e /\ x[2] = c }
                     IN IF v = 0 THEN have = {} ELSE have = {<<e, c, v>>}
        m12 == Chk(m11, compok, "C14", "component values differ from what the accessors stored")
        resok == \A r \in 1..2 : o.res[r] = Get(m.res, r, 0)
        m13 == Chk(m12, resok, "C14", "resource values differ from what the accessors stored")
        \* entity world reactor local data presence
        elok == \A e \in m.aliveE : (e \in Elems(o.elocal)) <=> (Get(m.elocal, e, 0) # 0)
        m14 == Chk(m13, m.neworld = 0 \/ elok, "C16", "entity world reactor local data present/absent against its triggers")
    IN [m14 EXCEPT !.drvlast = 0, !.taintsys = {}]

(* a panic that escaped from a driver step: the tree did not run to completion, whatever it held is never released *)
OnPanic(m, o) ==
    IF o.runaway = 1 THEN V(m, "C02", "the reaction tree did not terminate (event limit exceeded)") ELSE
    LET m1 == V(m, "C18", "panic inside the framework")
        unfinished == \E k \in DOMAIN m.cmd : m.cmd[k].st \in {"reached", "postponed", "replaying", "running"}
        m2 == IF unfinished \/ Len(m.owed) > 0 THEN V(m1, "C02", "the reaction tree was cut short by a panic inside the framework") ELSE m1
        unrel == \E p \in DOMAIN m.pay : ~m.pay[p].dropped
        m3 == IF unrel THEN V(m2, "C05", "an event payload was never released: the tree was cut short by a panic inside the framework") ELSE m2
    IN m3

MonStep(m, o) ==
    CASE o.t = "cfg" -> OnCfg(m, o)
      [] o.t = "drv" -> [m EXCEPT !.stepkind = o.kind]
      [] o.t = "issue" -> OnIssue(m, o)
      [] o.t = "apply" -> OnApply(m, o)
      [] o.t = "done" -> OnDone(m, o)
      [] o.t = "sched" -> OnSched(m, o)
      [] o.t = "cmd" -> OnCmd(m, o)
      [] o.t = "enter" -> OnEnter(m, o)
      [] o.t = "abort" -> OnAbort(m, o)
      [] o.t = "postpone" -> OnPostpone(m, o)
      [] o.t = "take" -> OnTake(m, o)
      [] o.t = "run" -> OnRun(m, o)
      [] o.t = "bodyend" -> OnBodyend(m, o)
      [] o.t = "reinsert" -> OnFinish(m, o, FALSE)
      [] o.t = "dropcb" -> OnFinish(m, o, TRUE)
      [] o.t = "replay" -> OnReplay(m, o)
      [] o.t = "discard" -> OnDiscard(m, o)
      [] o.t = "exit" -> OnExit(m, o)
      [] o.t = "gc" -> OnGc(m, o)
      [] o.t = "poll" -> OnPoll(m, o)
      [] o.t = "pollend" -> OnPollend(m, o)
      [] o.t = "probe" -> OnProbe(m, o)
      [] o.t = "drop" -> OnDrop(m, o)
      [] o.t = "taken" -> OnTaken(m, o)
      [] o.t = "sysdrop" -> OnSysdrop(m, o)
      [] o.t = "oncedespawn" -> OnOnceDespawn(m, o)
      [] o.t = "quiesce" -> OnQuiesce(m, o)
      [] o.t = "panic" -> OnPanic(m, o)
      [] OTHER -> V(m, "C00", "unknown record")

MonSeq(m, s) == FoldSeq(MonStep, m, s)

(* violations of property p, not counting recorded findings (known_findings.json) *)
KnownWhys == {F1Why, F2Why, F2bWhy}
ViolOf(m, p) == { v \in m.viol : v[1] = p /\ v[2] \notin KnownWhys }
=============================================================================
