------------------------------- MODULE SCGen -------------------------------
(* Behaviours of Syscall.tla for replay on the real syscall family: one JSON line per complete behaviour. *)
EXTENDS Syscall, Json
Emitted == (stack = <<>> /\ ncall >= MaxCalls) => PrintT(<<"REPLAY", ToJson(hist)>>)
=============================================================================
