SPECIFICATION TCSpec
CONSTANTS
  NSys = 3
  NOnce = 1
  NW = 0
  NER = 0
  NEnt = 2
  Hier = 0
  NTy = 2
  NVal = 2
  OpNames = {}
  Bundles = {}
  Modes = {}
  MaxOps = 0
  BodyOps = 0
  FinalStep = ""
  Budget = 0
  MaxSteps = 0
  InitOps <- NoOps
  StepKinds = {}
  Features = {}
  Defects = {}
  Mutants = {}
  Scripted = TRUE
CONSTRAINT Progress
POSTCONDITION Report
CHECK_DEADLOCK FALSE
