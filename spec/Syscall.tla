------------------------------ MODULE Syscall ------------------------------
(***************************************************************************)
(* C17: syscall / named_syscall / spawned_syscall.                         *)
(*        [ecs/syscall.rs, ecs/named_syscall.rs, ecs/spawned_syscall.rs]   *)
(*                                                                         *)
(* A call takes the cached system of its key (creating a fresh one if      *)
(* there is none - also when the key is currently running), runs it once,  *)
(* applies the commands it queued, puts the system back and returns its    *)
(* output.  Keys: "f*" = function type (syscall), "x*" = exclusive         *)
(* function type (syscall; may call immediately inside its body), "n*" =   *)
(* name + type (named_syscall), "o*" = syscall_once (a fresh system every   *)
(* call, never cached, even when the same function type is cached by       *)
(* syscall), "s*" = spawned id (spawned_syscall: Err                       *)
(* without running when the id is missing or currently running).           *)
(* Every system increments a Local and returns it, so the value returned   *)
(* identifies the state that served the call.                              *)
(***************************************************************************)
EXTENDS Integers, Sequences, FiniteSets, TLC

CONSTANTS Keys,        \* e.g. {"f1", "f2", "x1", "n1", "n2", "s1", "s2"}
          MaxCalls,    \* bound on calls in a behaviour
          MaxOps,      \* deferred ops per body
          MaxDepth,    \* bound on nesting
          Mutants      \* "named_keep_first", "no_apply", "shared_state", "spawned_rerun"

VARIABLES cache, seen, salive, sout, mark, stack, ncall, out, hist
vars == <<cache, seen, salive, sout, mark, stack, ncall, out, hist>>

Kind(k) == SubSeq(k, 1, 1)
Spawned == { k \in Keys : Kind(k) = "s" }

Init ==
    /\ cache = [k \in Keys |-> IF k \in Spawned THEN 0 ELSE -1]     \* -1: no cached system; n: Local of the cached system
    /\ seen = [k \in Keys |-> -1]        \* value of `mark` when the cached system last started (its change-detection window); -1: never ran
    /\ salive = [k \in Spawned |-> TRUE]
    /\ sout = [k \in Spawned |-> FALSE]
    /\ mark = 0
    /\ stack = <<>>                     \* frames: [f |-> "call", ...] / [f |-> "q", q |-> ops]
    /\ ncall = 0
    /\ out = <<>>
    /\ hist = <<>>

Depth == Cardinality({ i \in DOMAIN stack : stack[i].f = "call" })
Push(fr) == Append(stack, fr)
Pop == SubSeq(stack, 1, Len(stack) - 1)
Top == stack[Len(stack)]

(* what `Res<Mark>::is_changed()` shows to the system state that serves the call: a state that never ran sees the resource as  *)
(* changed; a cached one sees it changed iff `mark` was bumped since that state last started (change detection is part of   *)
(* the state that persists per key); exclusive systems do not observe it (-1)                                             *)
Chg(k, had) == IF Kind(k) = "x" THEN -1 ELSE IF ~had \/ seen[k] < 0 THEN 1 ELSE IF mark > seen[k] THEN 1 ELSE 0

(* start a call of key k; `rest` is the stack to continue on *)
(* `rest`: the stack to continue on when the call runs; `restErr`: when it fails without running;          *)
(* `preq`: commands pending on the world's queue (queued by an exclusive caller) - the callee's command       *)
(* application flushes them first [bevy: CommandQueue::apply calls world.flush_commands()]                     *)
StartCall(k, rest, restErr, pre, preq) ==
    IF k \in Spawned
    THEN IF ~salive[k] \/ (sout[k] /\ "spawned_rerun" \notin Mutants)
         THEN /\ out' = pre \o << [t |-> "err", key |-> k, why |-> IF salive[k] THEN "running" ELSE "missing", mark |-> mark] >>
              /\ stack' = restErr
              /\ UNCHANGED <<cache, seen, salive, sout, mark, ncall>>
         ELSE /\ sout' = [sout EXCEPT ![k] = TRUE]
              /\ ncall' = ncall + 1
              /\ stack' = Append(rest, [f |-> "call", key |-> k, c |-> ncall + 1, local |-> cache[k] + 1, pc |-> "body", ops |-> <<>>, preq |-> preq,
                                         chg |-> Chg(k, TRUE), mark0 |-> mark])
              /\ out' = pre
              /\ UNCHANGED <<cache, seen, salive, mark>>
    ELSE LET had == cache[k] >= 0
             shared == "shared_state" \in Mutants /\ ~had /\ \E k2 \in Keys \ Spawned : k2 # k /\ Kind(k2) = Kind(k) /\ cache[k2] >= 0
             base == IF had THEN cache[k]
                     ELSE IF shared THEN cache[CHOOSE k2 \in Keys \ Spawned : k2 # k /\ Kind(k2) = Kind(k) /\ cache[k2] >= 0] ELSE 0
         IN /\ cache' = [cache EXCEPT ![k] = -1]
            /\ ncall' = ncall + 1
            /\ stack' = Append(rest, [f |-> "call", key |-> k, c |-> ncall + 1, local |-> base + 1, pc |-> "body", ops |-> <<>>, preq |-> preq,
                                       chg |-> Chg(k, had), mark0 |-> mark])
            /\ out' = pre
            /\ UNCHANGED <<seen, salive, sout, mark>>

(* the body: first the `call` record, then any ops, then the end of the body *)
BodyStart(fr) ==
    /\ fr.pc = "body"
    /\ out' = << [t |-> "call", c |-> fr.c, key |-> fr.key, local |-> fr.local, mark |-> mark, chg |-> fr.chg] >>
    /\ stack' = [stack EXCEPT ![Len(stack)].pc = "ops"]
    /\ UNCHANGED <<cache, seen, salive, sout, mark, ncall>>

BodyOp(fr) ==
    /\ fr.pc = "ops" /\ Len(fr.ops) < MaxOps
    /\ \/ \E k \in Keys : /\ ncall + Len(SelectSeq(fr.ops, LAMBDA o : o[1] = "call")) < MaxCalls /\ Depth < MaxDepth
                          /\ stack' = [stack EXCEPT ![Len(stack)].ops = Append(@, <<"call", k>>)]
                          /\ out' = << [t |-> "issue", c |-> fr.c, op |-> <<"call", k>>] >>
       \/ /\ stack' = [stack EXCEPT ![Len(stack)].ops = Append(@, <<"mark", "">>)]
          /\ out' = << [t |-> "issue", c |-> fr.c, op |-> <<"mark", "">>] >>
       \/ \E k \in Spawned : /\ stack' = [stack EXCEPT ![Len(stack)].ops = Append(@, <<"desp", k>>)]
                             /\ out' = << [t |-> "issue", c |-> fr.c, op |-> <<"desp", k>>] >>
    /\ UNCHANGED <<cache, seen, salive, sout, mark, ncall>>

(* exclusive systems may call immediately, inside their body *)
BodyNow(fr) ==
    /\ fr.pc = "ops" /\ Kind(fr.key) = "x" /\ Len(fr.ops) < MaxOps /\ ncall < MaxCalls /\ Depth < MaxDepth
    /\ \E k \in Keys :
          LET pending == SelectSeq(fr.ops, LAMBDA o : o[1] # "now")
              flushed == [stack EXCEPT ![Len(stack)].ops = <<>>, ![Len(stack)].preq = <<>>]      \* the callee applies them
              kept == stack
          IN StartCall(k, flushed, kept, << [t |-> "issue", c |-> fr.c, op |-> <<"now", k>>] >>, fr.preq \o pending)

BodyEnd(fr) ==
    /\ fr.pc = "ops"
    /\ out' = << [t |-> "bodyend", c |-> fr.c] >>
    /\ LET q == fr.preq \o SelectSeq(fr.ops, LAMBDA o : o[1] # "now")
           qq == IF "no_apply" \in Mutants THEN SelectSeq(q, LAMBDA o : o[1] # "mark") ELSE q
       IN stack' = Append([stack EXCEPT ![Len(stack)].pc = "ret"], [f |-> "q", q |-> qq])
    /\ UNCHANGED <<cache, seen, salive, sout, mark, ncall>>

(* commands are applied in order, each completely, before the call returns *)
QStep(fr) ==
    IF Len(fr.q) = 0
    THEN /\ stack' = Pop /\ out' = <<>> /\ UNCHANGED <<cache, seen, salive, sout, mark, ncall>>
    ELSE LET o == Head(fr.q)
             rest == [stack EXCEPT ![Len(stack)].q = Tail(@)]
         IN CASE o[1] = "mark" -> /\ mark' = mark + 1 /\ stack' = rest /\ out' = <<>> /\ UNCHANGED <<cache, seen, salive, sout, ncall>>
              [] o[1] = "desp" -> /\ salive' = [salive EXCEPT ![o[2]] = FALSE] /\ stack' = rest /\ out' = <<>>
                                  /\ UNCHANGED <<cache, seen, sout, mark, ncall>>
              [] o[1] = "call" -> StartCall(o[2], rest, rest, <<>>, <<>>)

Return(fr) ==
    /\ fr.pc = "ret"
    /\ out' = << [t |-> "ret", c |-> fr.c, key |-> fr.key, val |-> fr.local, mark |-> mark] >>
    /\ stack' = Pop
    /\ IF fr.key \in Spawned
       THEN /\ sout' = [sout EXCEPT ![fr.key] = FALSE]
            /\ cache' = IF salive[fr.key] THEN [cache EXCEPT ![fr.key] = fr.local] ELSE cache
            /\ seen' = IF salive[fr.key] THEN [seen EXCEPT ![fr.key] = fr.mark0] ELSE seen
            /\ UNCHANGED salive
       ELSE /\ cache' = IF "named_keep_first" \in Mutants /\ Kind(fr.key) = "n" /\ cache[fr.key] >= 0 THEN cache
                        ELSE IF Kind(fr.key) = "o" THEN cache            \* syscall_once: the system is not kept
                        ELSE [cache EXCEPT ![fr.key] = fr.local]
            /\ seen' = IF ("named_keep_first" \in Mutants /\ Kind(fr.key) = "n" /\ cache[fr.key] >= 0) \/ Kind(fr.key) = "o" THEN seen
                       ELSE [seen EXCEPT ![fr.key] = fr.mark0]
            /\ UNCHANGED <<salive, sout>>
    /\ UNCHANGED <<mark, ncall>>

Driver ==
    /\ stack = <<>> /\ ncall < MaxCalls
    /\ \E k \in Keys : StartCall(k, <<>>, <<>>, << [t |-> "drv", key |-> k] >>, <<>>)

Step ==
    LET fr == Top IN
    \/ fr.f = "call" /\ (BodyStart(fr) \/ BodyOp(fr) \/ BodyNow(fr) \/ BodyEnd(fr) \/ Return(fr))
    \/ fr.f = "q" /\ QStep(fr)

Next == (Driver \/ (stack # <<>> /\ Step)) /\ hist' = hist \o out'

Spec == Init /\ [][Next]_vars

(* ---- C17 stated on the model ---- *)
TypeOK == /\ \A k \in Keys : cache[k] >= -1
          /\ mark >= 0
(* the state of a key never goes backwards while the key is not running: calls with the same key see a counter *)
(* that persists; checked as a property of consecutive `ret` values on the recorded streams (see vlib)          *)
View == <<cache, seen, salive, sout, mark, stack, ncall>>
=============================================================================
