//! Tag types, payloads and the op / program data model shared by all harness drivers.

use bevy::prelude::*;
use bevy_cobweb::prelude::*;
use serde_json::{json, Value};

//----------------------------------------------------------------------------------------------------------------
// emit helpers

pub fn emit(v: Value)
{
    bevy_cobweb::verif::emit(bevy_cobweb::verif::Event::User(v.to_string()));
}

//----------------------------------------------------------------------------------------------------------------
// payloads: every payload carries its id and reports its own drop

macro_rules! payload {
    ($name:ident) => {
        pub struct $name(pub u32);
        impl Drop for $name { fn drop(&mut self) { emit(json!({"t":"drop","p":self.0})); } }
    };
}
payload!(B1);
payload!(B2);
/// Entity events use the same payload types as broadcasts: the framework keys broadcast and entity-event tables by the
/// same `TypeId`, so a mix-up between the two families can only show when a type is used in both.
pub type E1 = B1;
pub type E2 = B2;
/// System event payload: optionally carries an `AutoDespawnSignal` of a plain entity, so that releasing the payload
/// makes the framework's garbage collector despawn that entity (an "automatic despawn" cause for C08).
pub struct P1(pub u32, pub Option<AutoDespawnSignal>);
impl Drop for P1 { fn drop(&mut self) { emit(json!({"t":"drop","p":self.0})); } }

/// Values compare equal when they agree modulo 100: a `PartialEq` coarser than identity, so that `set_if_neq` can be given a
/// value that is equal to the stored one and yet distinguishable from it (it must then neither store nor trigger).
macro_rules! coarse_eq {
    ($name:ident) => { impl PartialEq for $name { fn eq(&self, other: &Self) -> bool { self.0 % 100 == other.0 % 100 } } };
}
#[derive(ReactComponent, Debug)]
pub struct C1(pub u32);
#[derive(ReactComponent, Debug)]
pub struct C2(pub u32);
coarse_eq!(C1);
coarse_eq!(C2);

#[derive(ReactResource, Debug, Default)]
pub struct R1(pub u32);
#[derive(ReactResource, Debug, Default)]
pub struct R2(pub u32);
coarse_eq!(R1);
coarse_eq!(R2);

/// Dropped together with the closure of a harness system: its system state is gone.
pub struct Canary(pub usize);
impl Drop for Canary { fn drop(&mut self) { emit(json!({"t":"sysdrop","sys":self.0})); } }

//----------------------------------------------------------------------------------------------------------------
// triggers

#[derive(Copy, Clone, Debug, PartialEq, Eq)]
pub enum Trig
{
    Bc(u8), Res(u8), AnyEv(u8), Ins(u8), Mut(u8), Rem(u8),
    EIns(u8, u8), EMut(u8, u8), ERem(u8, u8), EEv(u8, u8), Desp(u8),
}

impl Trig
{
    pub fn from_json(v: &Value) -> Trig
    {
        let a = v.as_array().expect("trigger array");
        let n = |i: usize| a[i].as_u64().expect("trigger int") as u8;
        match a[0].as_str().expect("trigger kind")
        {
            "bc" => Trig::Bc(n(1)), "res" => Trig::Res(n(1)), "anyev" => Trig::AnyEv(n(1)),
            "ins" => Trig::Ins(n(1)), "mut" => Trig::Mut(n(1)), "rem" => Trig::Rem(n(1)),
            "eins" => Trig::EIns(n(1), n(2)), "emut" => Trig::EMut(n(1), n(2)), "erem" => Trig::ERem(n(1), n(2)),
            "eev" => Trig::EEv(n(1), n(2)), "desp" => Trig::Desp(n(1)),
            k => panic!("unknown trigger kind {k}"),
        }
    }
    pub fn to_json(&self) -> Value
    {
        match *self
        {
            Trig::Bc(t) => json!(["bc", t]), Trig::Res(t) => json!(["res", t]), Trig::AnyEv(t) => json!(["anyev", t]),
            Trig::Ins(c) => json!(["ins", c]), Trig::Mut(c) => json!(["mut", c]), Trig::Rem(c) => json!(["rem", c]),
            Trig::EIns(e, c) => json!(["eins", e, c]), Trig::EMut(e, c) => json!(["emut", e, c]),
            Trig::ERem(e, c) => json!(["erem", e, c]), Trig::EEv(e, t) => json!(["eev", e, t]),
            Trig::Desp(e) => json!(["desp", e]),
        }
    }
}

pub const MAX_BUNDLE: usize = 8;

/// A trigger bundle assembled at run time. `ents` resolves entity ids of the program to real entities.
#[derive(Copy, Clone)]
pub struct DynBundle
{
    pub trigs: [Option<(Trig, Entity)>; MAX_BUNDLE],
}

impl DynBundle
{
    pub fn new(trigs: &[Trig], resolve: impl Fn(u8) -> Entity) -> Self
    {
        assert!(trigs.len() <= MAX_BUNDLE);
        let mut out = [None; MAX_BUNDLE];
        for (i, t) in trigs.iter().enumerate()
        {
            let e = match *t
            {
                Trig::EIns(e, _) | Trig::EMut(e, _) | Trig::ERem(e, _) | Trig::EEv(e, _) | Trig::Desp(e) => resolve(e),
                _ => Entity::PLACEHOLDER,
            };
            out[i] = Some((*t, e));
        }
        Self{ trigs: out }
    }
}

macro_rules! dispatch_trigger {
    ($t:expr, $e:expr, |$x:ident| $body:expr) => {
        match $t
        {
            Trig::Bc(1) => { let $x = broadcast::<B1>(); $body }
            Trig::Bc(_) => { let $x = broadcast::<B2>(); $body }
            Trig::Res(1) => { let $x = resource_mutation::<R1>(); $body }
            Trig::Res(_) => { let $x = resource_mutation::<R2>(); $body }
            Trig::AnyEv(1) => { let $x = any_entity_event::<E1>(); $body }
            Trig::AnyEv(_) => { let $x = any_entity_event::<E2>(); $body }
            Trig::Ins(1) => { let $x = insertion::<C1>(); $body }
            Trig::Ins(_) => { let $x = insertion::<C2>(); $body }
            Trig::Mut(1) => { let $x = mutation::<C1>(); $body }
            Trig::Mut(_) => { let $x = mutation::<C2>(); $body }
            Trig::Rem(1) => { let $x = removal::<C1>(); $body }
            Trig::Rem(_) => { let $x = removal::<C2>(); $body }
            Trig::EIns(_, 1) => { let $x = entity_insertion::<C1>($e); $body }
            Trig::EIns(_, _) => { let $x = entity_insertion::<C2>($e); $body }
            Trig::EMut(_, 1) => { let $x = entity_mutation::<C1>($e); $body }
            Trig::EMut(_, _) => { let $x = entity_mutation::<C2>($e); $body }
            Trig::ERem(_, 1) => { let $x = entity_removal::<C1>($e); $body }
            Trig::ERem(_, _) => { let $x = entity_removal::<C2>($e); $body }
            Trig::EEv(_, 1) => { let $x = entity_event::<E1>($e); $body }
            Trig::EEv(_, _) => { let $x = entity_event::<E2>($e); $body }
            Trig::Desp(_) => { let $x = despawn($e); $body }
        }
    };
}

impl ReactionTriggerBundle for DynBundle
{
    fn len(&self) -> usize { self.trigs.iter().filter(|t| t.is_some()).count() }

    fn collect_reactor_types(self, func: &mut impl FnMut(ReactorType))
    {
        for (t, e) in self.trigs.iter().flatten()
        {
            dispatch_trigger!(*t, *e, |x| x.collect_reactor_types(&mut *func));
        }
    }

    fn register_triggers(self, commands: &mut Commands, handle: &ReactorHandle)
    {
        for (t, e) in self.trigs.iter().flatten()
        {
            dispatch_trigger!(*t, *e, |x| x.register_triggers(commands, handle));
        }
    }
}

//----------------------------------------------------------------------------------------------------------------
// ops

#[derive(Clone, Debug, PartialEq)]
pub enum Op
{
    Run(u8),
    SysEv(u8, u32),
    /// system, payload, entity whose auto-despawn signal travels in the payload
    SysEvSig(u8, u32, u8),
    Bc(u8, u32),
    EEv(u8, u8, u32),
    Res(u8),
    ResMut(u8, u32),
    ResSet(u8, u32),
    ResNo(u8, u32),
    Ins(u8, u8, u32),
    Mut(u8, u8, u32),
    Set(u8, u8, u32),
    NoReact(u8, u8, u32),
    Trig(u8, u8),
    Rm(u8, u8),
    Desp(u8),
    /// `EntityCommands::despawn_recursive`
    DespRec(u8),
    /// direct world access from a queued closure: `World::despawn`, `despawn_with_children_recursive`, `EntityWorldMut::remove`
    XDesp(u8),
    XDespRec(u8),
    XRm(u8, u8),
    /// `World::broadcast` / `World::entity_event` / `World::send_system_event` from a closure with `&mut World`
    XBc(u8, u32),
    XEEv(u8, u8, u32),
    XSysEv(u8, u32),
    /// `World::trigger_resource_mutation` from a closure with `&mut World`
    XRes(u8),
    /// immediate calls from the body of an exclusive system: `SystemCommand::apply(world)`, `World::send_system_event`,
    /// `World::broadcast`, `World::entity_event` (they run at once, nested in the body)
    IRun(u8),
    ISysEv(u8, u32),
    IBc(u8, u32),
    IEEv(u8, u8, u32),
    /// `ReactiveMut::single_mut` / `set_single_if_not_eq` / `single_noreact` (skipped unless exactly this entity has the component)
    SMut(u8, u8, u32),
    SSet(u8, u8, u32),
    SNo(u8, u8, u32),
    DespSys(u8),
    /// drop the `AutoDespawnSignal` of a system spawned with `spawn_rc_system_command`
    RcDrop(u8),
    /// mode, system, bundle, token id (0 = none)
    Reg(String, u8, Vec<Trig>, u32),
    Once(u8, Vec<Trig>, u32),
    /// `ReactCommands::on` / `on_persistent` / `on_revokable`: mode, slot system, bundle, token id (0 = none)
    On(String, u8, Vec<Trig>, u32),
    Revoke(u32),
    Probe,
    /// world reactor ops: reactor index, bundle
    WAdd(u8, Vec<Trig>),
    WRem(u8, Vec<Trig>),
    WRun(u8),
    /// entity world reactor: reactor index, entity, local value
    EAdd(u8, u8, u32),
    ERem(u8, Vec<Trig>),
    SetLocal(u32),
}

fn bundle_from(v: &Value) -> Vec<Trig> { v.as_array().expect("bundle").iter().map(Trig::from_json).collect() }
fn bundle_to(b: &[Trig]) -> Value { Value::Array(b.iter().map(|t| t.to_json()).collect()) }

impl Op
{
    pub fn from_json(v: &Value) -> Op
    {
        let a = v.as_array().expect("op array");
        let n8 = |i: usize| a[i].as_u64().expect("op int") as u8;
        let n32 = |i: usize| a[i].as_u64().expect("op int") as u32;
        match a[0].as_str().expect("op name")
        {
            "run" => Op::Run(n8(1)),
            "sysev" => Op::SysEv(n8(1), n32(2)),
            "sysevsig" => Op::SysEvSig(n8(1), n32(2), n8(3)),
            "bc" => Op::Bc(n8(1), n32(2)),
            "eev" => Op::EEv(n8(1), n8(2), n32(3)),
            "res" => Op::Res(n8(1)),
            "resmut" => Op::ResMut(n8(1), n32(2)),
            "resset" => Op::ResSet(n8(1), n32(2)),
            "resno" => Op::ResNo(n8(1), n32(2)),
            "ins" => Op::Ins(n8(1), n8(2), n32(3)),
            "mut" => Op::Mut(n8(1), n8(2), n32(3)),
            "set" => Op::Set(n8(1), n8(2), n32(3)),
            "noreact" => Op::NoReact(n8(1), n8(2), n32(3)),
            "trig" => Op::Trig(n8(1), n8(2)),
            "rm" => Op::Rm(n8(1), n8(2)),
            "desp" => Op::Desp(n8(1)),
            "desprec" => Op::DespRec(n8(1)),
            "xdesp" => Op::XDesp(n8(1)),
            "xdesprec" => Op::XDespRec(n8(1)),
            "xrm" => Op::XRm(n8(1), n8(2)),
            "xbc" => Op::XBc(n8(1), n32(2)),
            "xeev" => Op::XEEv(n8(1), n8(2), n32(3)),
            "xsysev" => Op::XSysEv(n8(1), n32(2)),
            "xres" => Op::XRes(n8(1)),
            "irun" => Op::IRun(n8(1)),
            "isysev" => Op::ISysEv(n8(1), n32(2)),
            "ibc" => Op::IBc(n8(1), n32(2)),
            "ieev" => Op::IEEv(n8(1), n8(2), n32(3)),
            "smut" => Op::SMut(n8(1), n8(2), n32(3)),
            "sset" => Op::SSet(n8(1), n8(2), n32(3)),
            "sno" => Op::SNo(n8(1), n8(2), n32(3)),
            "despsys" => Op::DespSys(n8(1)),
            "rcdrop" => Op::RcDrop(n8(1)),
            "reg" => Op::Reg(a[1].as_str().unwrap().to_string(), n8(2), bundle_from(&a[3]), n32(4)),
            "once" => Op::Once(n8(1), bundle_from(&a[2]), n32(3)),
            "on" => Op::On(a[1].as_str().unwrap().to_string(), n8(2), bundle_from(&a[3]), n32(4)),
            "revoke" => Op::Revoke(n32(1)),
            "probe" => Op::Probe,
            "wadd" => Op::WAdd(n8(1), bundle_from(&a[2])),
            "wrem" => Op::WRem(n8(1), bundle_from(&a[2])),
            "wrun" => Op::WRun(n8(1)),
            "eadd" => Op::EAdd(n8(1), n8(2), n32(3)),
            "erem" => Op::ERem(n8(1), bundle_from(&a[2])),
            "setlocal" => Op::SetLocal(n32(1)),
            k => panic!("unknown op {k}"),
        }
    }

    pub fn to_json(&self) -> Value
    {
        match self
        {
            Op::Run(s) => json!(["run", s]),
            Op::SysEv(s, p) => json!(["sysev", s, p]),
            Op::SysEvSig(s, p, e) => json!(["sysevsig", s, p, e]),
            Op::Bc(t, p) => json!(["bc", t, p]),
            Op::EEv(e, t, p) => json!(["eev", e, t, p]),
            Op::Res(r) => json!(["res", r]),
            Op::ResMut(r, v) => json!(["resmut", r, v]),
            Op::ResSet(r, v) => json!(["resset", r, v]),
            Op::ResNo(r, v) => json!(["resno", r, v]),
            Op::Ins(e, c, v) => json!(["ins", e, c, v]),
            Op::Mut(e, c, v) => json!(["mut", e, c, v]),
            Op::Set(e, c, v) => json!(["set", e, c, v]),
            Op::NoReact(e, c, v) => json!(["noreact", e, c, v]),
            Op::Trig(e, c) => json!(["trig", e, c]),
            Op::Rm(e, c) => json!(["rm", e, c]),
            Op::Desp(e) => json!(["desp", e]),
            Op::DespRec(e) => json!(["desprec", e]),
            Op::XDesp(e) => json!(["xdesp", e]),
            Op::XDespRec(e) => json!(["xdesprec", e]),
            Op::XRm(e, c) => json!(["xrm", e, c]),
            Op::XBc(t, p) => json!(["xbc", t, p]),
            Op::XEEv(e, t, p) => json!(["xeev", e, t, p]),
            Op::XSysEv(s, p) => json!(["xsysev", s, p]),
            Op::XRes(r) => json!(["xres", r]),
            Op::IRun(s) => json!(["irun", s]),
            Op::ISysEv(s, p) => json!(["isysev", s, p]),
            Op::IBc(t, p) => json!(["ibc", t, p]),
            Op::IEEv(e, t, p) => json!(["ieev", e, t, p]),
            Op::SMut(e, c, v) => json!(["smut", e, c, v]),
            Op::SSet(e, c, v) => json!(["sset", e, c, v]),
            Op::SNo(e, c, v) => json!(["sno", e, c, v]),
            Op::DespSys(s) => json!(["despsys", s]),
            Op::RcDrop(s) => json!(["rcdrop", s]),
            Op::Reg(m, s, b, k) => json!(["reg", m, s, bundle_to(b), k]),
            Op::Once(s, b, k) => json!(["once", s, bundle_to(b), k]),
            Op::On(m, s, b, k) => json!(["on", m, s, bundle_to(b), k]),
            Op::Revoke(k) => json!(["revoke", k]),
            Op::Probe => json!(["probe"]),
            Op::WAdd(w, b) => json!(["wadd", w, bundle_to(b)]),
            Op::WRem(w, b) => json!(["wrem", w, bundle_to(b)]),
            Op::WRun(w) => json!(["wrun", w]),
            Op::EAdd(w, e, v) => json!(["eadd", w, e, v]),
            Op::ERem(w, b) => json!(["erem", w, bundle_to(b)]),
            Op::SetLocal(v) => json!(["setlocal", v]),
        }
    }
}

#[derive(Clone, Debug, Default)]
pub struct Script
{
    pub ops: Vec<Op>,
    pub err: bool,
    /// Do not take the system event (it is then released by the framework's cleanup).
    pub notake: bool,
    /// After a successful take, try to take again (must fail).
    pub take2: bool,
}

impl Script
{
    pub fn from_json(v: &Value) -> Script
    {
        Script{
            ops: v["ops"].as_array().map(|a| a.iter().map(Op::from_json).collect()).unwrap_or_default(),
            err: v["err"].as_bool().unwrap_or(false),
            notake: v["notake"].as_bool().unwrap_or(false),
            take2: v["take2"].as_bool().unwrap_or(false),
        }
    }
    pub fn to_json(&self) -> Value
    {
        json!({"ops": self.ops.iter().map(|o| o.to_json()).collect::<Vec<_>>(), "err": self.err, "notake": self.notake, "take2": self.take2})
    }
}

/// A driver step.
#[derive(Clone, Debug)]
pub enum Step
{
    /// Issue ops through `Commands` + accessors and flush.
    Ops(Vec<Op>),
    /// `garbage_collect_entities(world)`
    Gc,
    /// `schedule_removal_and_despawn_reactors(world)`
    Poll,
    /// A frame with no user systems: `App::update` (Last schedule = GC then poll, then `World::clear_trackers`).
    Clear,
    /// A frame: the ops are issued by a plain system in `Update`, then the rest of `App::update` as in `Clear`.
    Frame(Vec<Op>),
    /// Direct world access between trees: the ops (`xdesp`, `xdesprec`, `xrm`) act on `&mut World` with no command queue.
    Direct(Vec<Op>),
}

impl Step
{
    pub fn from_json(v: &Value) -> Step
    {
        match v["kind"].as_str().unwrap_or("ops")
        {
            "gc" => Step::Gc,
            "poll" => Step::Poll,
            "clear" => Step::Clear,
            "frame" => Step::Frame(v["ops"].as_array().map(|a| a.iter().map(Op::from_json).collect()).unwrap_or_default()),
            "direct" => Step::Direct(v["ops"].as_array().map(|a| a.iter().map(Op::from_json).collect()).unwrap_or_default()),
            _ => Step::Ops(v["ops"].as_array().map(|a| a.iter().map(Op::from_json).collect()).unwrap_or_default()),
        }
    }
    pub fn to_json(&self) -> Value
    {
        match self
        {
            Step::Gc => json!({"kind":"gc"}),
            Step::Poll => json!({"kind":"poll"}),
            Step::Clear => json!({"kind":"clear"}),
            Step::Frame(ops) => json!({"kind":"frame","ops":ops.iter().map(|o| o.to_json()).collect::<Vec<_>>()}),
            Step::Direct(ops) => json!({"kind":"direct","ops":ops.iter().map(|o| o.to_json()).collect::<Vec<_>>()}),
            Step::Ops(ops) => json!({"kind":"ops","ops":ops.iter().map(|o| o.to_json()).collect::<Vec<_>>()}),
        }
    }
}

#[derive(Clone, Debug)]
pub struct Config
{
    /// Number of pre-spawned systems (ids 1..=nsys); system kinds: "plain" | "excl".
    pub kinds: Vec<String>,
    /// Number of one-off reactor slots (ids nsys+1 ..= nsys+nonce).
    pub nonce: usize,
    /// Number of pre-spawned plain entities.
    pub nent: usize,
    /// Number of world reactors / entity world reactors registered up front (0..=2 / 0..=1).
    pub nworld: usize,
    pub neworld: usize,
    /// Entities 1..=hier form a parent chain (entity e + 1 is the child of entity e).
    pub hier: usize,
    /// Reactors added at start-up with `App::add_reactor` (one persistent bundle each); their systems come after the world reactors.
    pub app: Vec<Vec<Trig>>,
    /// Pre-spawned systems created with `spawn_rc_system_command` (the harness holds their signal).
    pub rcsys: Vec<usize>,
}

impl Config
{
    pub fn from_json(v: &Value) -> Config
    {
        Config{
            kinds: v["kinds"].as_array().map(|a| a.iter().map(|k| k.as_str().unwrap().to_string()).collect())
                .unwrap_or_else(|| vec!["plain".into(); v["nsys"].as_u64().unwrap_or(2) as usize]),
            nonce: v["nonce"].as_u64().unwrap_or(0) as usize,
            nent: v["nent"].as_u64().unwrap_or(2) as usize,
            nworld: v["nworld"].as_u64().unwrap_or(0) as usize,
            neworld: v["neworld"].as_u64().unwrap_or(0) as usize,
            hier: v["hier"].as_u64().unwrap_or(0) as usize,
            app: v["app"].as_array().map(|a| a.iter().map(bundle_from).collect()).unwrap_or_default(),
            rcsys: v["rcsys"].as_array().map(|a| a.iter().map(|x| x.as_u64().unwrap() as usize).collect()).unwrap_or_default(),
        }
    }
    pub fn to_json(&self) -> Value
    {
        json!({"kinds": self.kinds, "nonce": self.nonce, "nent": self.nent, "nworld": self.nworld, "neworld": self.neworld, "hier": self.hier,
               "app": self.app.iter().map(|b| bundle_to(b)).collect::<Vec<_>>(), "rcsys": self.rcsys})
    }
    pub fn nsys(&self) -> usize { self.kinds.len() }
}

#[derive(Clone, Debug)]
pub struct Program
{
    pub cfg: Config,
    pub steps: Vec<Step>,
    pub scripts: Vec<Script>,
}

impl Program
{
    pub fn from_json(v: &Value) -> Program
    {
        Program{
            cfg: Config::from_json(&v["cfg"]),
            steps: v["steps"].as_array().map(|a| a.iter().map(Step::from_json).collect()).unwrap_or_default(),
            scripts: v["scripts"].as_array().map(|a| a.iter().map(Script::from_json).collect()).unwrap_or_default(),
        }
    }
    pub fn to_json(&self) -> Value
    {
        json!({
            "cfg": self.cfg.to_json(),
            "steps": self.steps.iter().map(|s| s.to_json()).collect::<Vec<_>>(),
            "scripts": self.scripts.iter().map(|s| s.to_json()).collect::<Vec<_>>(),
        })
    }
}
