//! C17: the syscall family driven by behaviours generated from Syscall.tla.
//! A program is the list of top-level calls plus one script per call (in global call order); every system increments
//! a `Local` and returns it, so the returned value identifies the system state that served the call.

use bevy::prelude::*;
use bevy_cobweb::prelude::*;
use serde_json::{json, Value};
use std::cell::RefCell;

#[derive(Resource, Default)]
struct Mark(u32);

struct St
{
    scripts: Vec<Vec<(String, String)>>,
    ncall: u32,
    out: Vec<Value>,
    spawned: Vec<Option<SysId>>,
}

thread_local! { static ST: RefCell<Option<St>> = const { RefCell::new(None) }; }
fn with<T>(f: impl FnOnce(&mut St) -> T) -> T { ST.with(|s| f(s.borrow_mut().as_mut().expect("sc state"))) }
fn emit(v: Value) { with(|s| s.out.push(v)); }

/// `n3` has the NAME of `n1` but another system type: names alone do not identify a cached system.
/// `o1` is `syscall_once` with the function type of `f1`: a fresh system every call, the cache of `f1` untouched.
const KEYS: [&str; 9] = ["f1", "f2", "x1", "n1", "n2", "s1", "s2", "n3", "o1"];
fn code(k: &str) -> u32 { KEYS.iter().position(|x| *x == k).map(|i| i as u32 + 1).unwrap_or(0) }
fn name(c: u32) -> &'static str { KEYS[(c - 1) as usize] }

/// Body shared by all systems: returns (call index, local).
fn body(key: u32, local: u32, mark: u32, chg: i32, mut deferred: impl FnMut(&str, &str), mut now: impl FnMut(&str)) -> (u32, u32)
{
    let c = with(|s| { s.ncall += 1; s.ncall });
    emit(json!({"t":"call","c":c,"key":name(key),"local":local,"mark":mark,"chg":chg}));
    let script = with(|s| s.scripts.get(c as usize - 1).cloned().unwrap_or_default());
    for (op, arg) in script.iter()
    {
        emit(json!({"t":"issue","c":c,"op":[op, arg]}));
        if op == "now" { now(arg); } else { deferred(op, arg); }
    }
    emit(json!({"t":"bodyend","c":c}));
    (c, local)
}

fn queue_op(c: &mut Commands, op: &str, arg: &str)
{
    match op
    {
        "call" => { let k = code(arg); c.queue(move |w: &mut World| do_call(w, k)); }
        "mark" => { c.queue(|w: &mut World| { w.resource_mut::<Mark>().0 += 1; }); }
        "desp" =>
        {
            let k = code(arg);
            c.queue(move |w: &mut World| {
                if let Some(id) = with(|s| s.spawned[(k - 6) as usize]) { if let Ok(e) = w.get_entity_mut(id.entity()) { e.despawn(); } }
            });
        }
        _ => {}
    }
}

fn f_sys<const K: u32>(In(key): In<u32>, mut local: Local<u32>, mark: Res<Mark>, mut c: Commands) -> (u32, u32)
{
    *local += 1;
    let m = mark.0;
    body(key, *local, m, mark.is_changed() as i32, |op, arg| queue_op(&mut c, op, arg), |_| {})
}

fn n_sys(In(key): In<u32>, mut local: Local<u32>, mark: Res<Mark>, mut c: Commands) -> (u32, u32)
{
    *local += 1;
    let m = mark.0;
    body(key, *local, m, mark.is_changed() as i32, |op, arg| queue_op(&mut c, op, arg), |_| {})
}

/// Same signature as `n_sys`, another type.
fn n_sys_b(In(key): In<u32>, mut local: Local<u32>, mark: Res<Mark>, mut c: Commands) -> (u32, u32)
{
    *local += 1;
    let m = mark.0;
    body(key, *local, m, mark.is_changed() as i32, |op, arg| queue_op(&mut c, op, arg), |_| {})
}

fn s_sys<const K: u32>(In(key): In<u32>, mut local: Local<u32>, mark: Res<Mark>, mut c: Commands) -> (u32, u32)
{
    *local += 1;
    let m = mark.0;
    body(key, *local, m, mark.is_changed() as i32, |op, arg| queue_op(&mut c, op, arg), |_| {})
}

/// Exclusive system: may call immediately inside its body; deferred ops go to the world's command queue.
fn x_sys<const K: u32>(In(key): In<u32>, world: &mut World, mut local: Local<u32>) -> (u32, u32)
{
    *local += 1;
    let m = world.resource::<Mark>().0;
    let wp: *mut World = world;
    // SAFETY: the two closures are used strictly one after the other on this thread, never concurrently.
    body(key, *local, m, -1,
        |op, arg| { let w = unsafe { &mut *wp }; let mut c = w.commands(); queue_op(&mut c, op, arg); },
        |arg| { let w = unsafe { &mut *wp }; do_call(w, code(arg)); })
}

fn do_call(world: &mut World, key: u32)
{
    let k = name(key);
    let res: Result<(u32, u32), &'static str> = match k
    {
        "f1" => Ok(syscall(world, key, f_sys::<1>)),
        "f2" => Ok(syscall(world, key, f_sys::<2>)),
        "x1" => Ok(syscall(world, key, x_sys::<1>)),
        "n1" => Ok(named_syscall(world, 1u32, key, n_sys)),
        "n2" => Ok(named_syscall(world, 2u32, key, n_sys)),
        "n3" => Ok(named_syscall(world, 1u32, key, n_sys_b)),
        "o1" => Ok(world.syscall_once(key, f_sys::<1>)),
        _ =>
        {
            let id = with(|s| s.spawned[(key - 6) as usize]).expect("spawned id");
            let exists = world.get_entity(id.entity()).is_ok();
            spawned_syscall::<In<u32>, (u32, u32)>(world, id, key).map_err(|_| if exists { "running" } else { "missing" })
        }
    };
    let mark = world.resource::<Mark>().0;
    match res
    {
        Ok((c, val)) => emit(json!({"t":"ret","c":c,"key":k,"val":val,"mark":mark})),
        Err(why) => emit(json!({"t":"err","key":k,"why":why,"mark":mark})),
    }
}

/// Runs one program: `{"calls": ["f1", ...], "scripts": [[["call","f2"],["mark",""]], ...]}`.
pub fn run(prog: &Value) -> Vec<Value>
{
    let scripts: Vec<Vec<(String, String)>> = prog["scripts"].as_array().map(|a| a.iter().map(|s| {
        s.as_array().map(|ops| ops.iter().map(|o| (o[0].as_str().unwrap_or("").to_string(), o[1].as_str().unwrap_or("").to_string())).collect()).unwrap_or_default()
    }).collect()).unwrap_or_default();
    ST.with(|s| *s.borrow_mut() = Some(St{ scripts, ncall: 0, out: vec![], spawned: vec![None, None] }));
    let mut world = World::new();
    world.init_resource::<Mark>();
    let s1 = spawn_system(&mut world, s_sys::<1>);
    let s2 = spawn_system(&mut world, s_sys::<2>);
    with(|s| s.spawned = vec![Some(s1), Some(s2)]);
    for k in prog["calls"].as_array().cloned().unwrap_or_default()
    {
        let k = k.as_str().unwrap_or("f1").to_string();
        emit(json!({"t":"drv","key":k}));
        do_call(&mut world, code(&k));
    }
    let out = with(|s| std::mem::take(&mut s.out));
    ST.with(|s| *s.borrow_mut() = None);
    out
}
