//! Random program source: draws driver steps and body scripts online from a configurable alphabet.
//!
//! The generator mirrors the guards of `Cobweb.tla`'s free bodies: payload ids and token ids are allocated in issue
//! order, one-off slots are used once, ops only reference systems that have been issued.

use crate::cob::{HState, ScriptSource};
use crate::types::*;
use rand::rngs::StdRng;
use rand::{Rng, SeedableRng};
use serde_json::Value;
use std::cell::RefCell;
use std::rc::Rc;

#[derive(Clone, Debug)]
pub struct GenCfg
{
    pub cfg: Config,
    /// op names the generator may use
    pub alphabet: Vec<String>,
    /// trigger kinds usable in bundles
    pub trigs: Vec<String>,
    pub modes: Vec<String>,
    pub max_ops: usize,
    pub max_bundle: usize,
    pub budget: usize,
    pub steps: usize,
    pub ntypes: u8,
    pub nvals: u32,
    /// probability (percent) that a driver step is gc / poll instead of ops
    pub p_gcpoll: u32,
    pub p_err: u32,
    pub p_notake: u32,
    /// probability (percent) that an ops step is run as a frame (plain system in `Update` + the rest of `App::update`)
    pub p_frame: u32,
    /// probability (percent) that an ops step is direct world access (only when the alphabet has `x*` ops)
    pub p_direct: u32,
    /// initial registration ops performed by the first driver step
    pub init: Vec<Op>,
}

impl GenCfg
{
    pub fn from_json(v: &Value) -> GenCfg
    {
        let strs = |k: &str, d: &[&str]| -> Vec<String> {
            v[k].as_array().map(|a| a.iter().map(|s| s.as_str().unwrap().to_string()).collect())
                .unwrap_or_else(|| d.iter().map(|s| s.to_string()).collect())
        };
        GenCfg{
            cfg: Config::from_json(&v["cfg"]),
            alphabet: strs("alphabet", &["run", "sysev", "bc", "eev", "reg", "revoke", "despsys", "probe"]),
            trigs: strs("trigs", &["bc", "eev", "anyev", "res"]),
            modes: strs("modes", &["persistent", "cleanup", "revokable"]),
            max_ops: v["max_ops"].as_u64().unwrap_or(3) as usize,
            max_bundle: v["max_bundle"].as_u64().unwrap_or(2) as usize,
            budget: v["budget"].as_u64().unwrap_or(12) as usize,
            steps: v["steps"].as_u64().unwrap_or(3) as usize,
            ntypes: v["ntypes"].as_u64().unwrap_or(2) as u8,
            nvals: v["nvals"].as_u64().unwrap_or(2) as u32,
            p_gcpoll: v["p_gcpoll"].as_u64().unwrap_or(10) as u32,
            p_err: v["p_err"].as_u64().unwrap_or(10) as u32,
            p_notake: v["p_notake"].as_u64().unwrap_or(30) as u32,
            p_frame: v["p_frame"].as_u64().unwrap_or(0) as u32,
            p_direct: v["p_direct"].as_u64().unwrap_or(0) as u32,
            init: v["init"].as_array().map(|a| a.iter().map(Op::from_json).collect()).unwrap_or_default(),
        }
    }
}

pub struct Gen
{
    pub g: GenCfg,
    rng: StdRng,
    next_p: u32,
    next_tok: u32,
    tokens: Vec<u32>,
    once_used: Vec<bool>,
    /// (system, trigger) pairs registered so far: the same key is never registered twice for one system
    regd: Vec<(u8, Trig)>,
    /// mode of the first registration of each system: rc systems are registered once only
    sysmode: Vec<u8>,
    budget: usize,
    steps_done: usize,
    pub steps_log: Vec<Step>,
}

impl Gen
{
    pub fn new(g: GenCfg, seed: u64) -> Gen
    {
        let nonce = g.cfg.nonce;
        let budget = g.budget;
        let nsys = g.cfg.nsys();
        // reference-counted system commands already have their own signal: only persistent registrations for them
        let mut sysmode = vec![0; nsys + 1];
        for s in g.cfg.rcsys.iter() { sysmode[*s] = 1; }
        Gen{ g, rng: StdRng::seed_from_u64(seed), next_p: 1, next_tok: 1, tokens: vec![], once_used: vec![false; nonce],
             regd: vec![], sysmode, budget, steps_done: 0, steps_log: vec![] }
    }

    fn ty(&mut self) -> u8 { self.rng.gen_range(1..=self.g.ntypes) }
    fn ent(&mut self) -> u8 { self.rng.gen_range(1..=self.g.cfg.nent.max(1)) as u8 }
    fn val(&mut self) -> u32 { self.rng.gen_range(1..=self.g.nvals) }
    /// value for the set-if-different accessors: sometimes a value that compares equal to another one (v + 100 == v)
    fn setval(&mut self) -> u32 { let v = self.val(); if self.rng.gen_range(0..100) < 35 { v + 100 } else { v } }
    fn payload(&mut self) -> u32 { let p = self.next_p; self.next_p += 1; p }

    /// A system that can be referenced: pre-spawned ones, issued one-off slots, world reactors are not addressed directly.
    fn sys(&mut self, applied: &[bool]) -> u8
    {
        let nsys = self.g.cfg.nsys();
        let mut pool: Vec<u8> = (1..=nsys as u8).collect();
        for (i, ok) in applied.iter().enumerate() { if *ok { pool.push((nsys + 1 + i) as u8); } }
        pool[self.rng.gen_range(0..pool.len())]
    }

    fn trig(&mut self) -> Trig
    {
        let k = self.g.trigs[self.rng.gen_range(0..self.g.trigs.len())].clone();
        match k.as_str()
        {
            "bc" => Trig::Bc(self.ty()), "res" => Trig::Res(self.ty()), "anyev" => Trig::AnyEv(self.ty()),
            "ins" => Trig::Ins(self.ty()), "mut" => Trig::Mut(self.ty()), "rem" => Trig::Rem(self.ty()),
            "eins" => Trig::EIns(self.ent(), self.ty()), "emut" => Trig::EMut(self.ent(), self.ty()),
            "erem" => Trig::ERem(self.ent(), self.ty()), "eev" => Trig::EEv(self.ent(), self.ty()),
            _ => Trig::Desp(self.ent()),
        }
    }

    /// A bundle without duplicates that does not repeat a key already registered for `s` (0 = no such check).
    fn bundle(&mut self, s: u8) -> Vec<Trig>
    {
        let n = self.rng.gen_range(0..=self.g.max_bundle);
        let mut out: Vec<Trig> = vec![];
        for _ in 0..n
        {
            let t = self.trig();
            if out.contains(&t) || self.regd.contains(&(s, t)) { continue; }
            out.push(t);
        }
        if s != 0 { for t in out.iter() { self.regd.push((s, *t)); } }
        out
    }

    fn op(&mut self, in_ew: bool, exclusive: bool, applied: &[bool]) -> Option<Op>
    {
        for _ in 0..20
        {
            let name = self.g.alphabet[self.rng.gen_range(0..self.g.alphabet.len())].clone();
            let needs_access = matches!(name.as_str(), "resmut" | "resset" | "resno" | "mut" | "set" | "noreact" | "wadd" | "wrem" | "wrun" | "eadd" | "erem" | "sysevsig" | "smut" | "sset" | "sno");
            if exclusive && needs_access { continue; }
            let op = match name.as_str()
            {
                "run" => Op::Run(self.sys(applied)),
                "sysev" => Op::SysEv(self.sys(applied), self.payload()),
                "sysevsig" => Op::SysEvSig(self.sys(applied), self.payload(), self.ent()),
                "bc" => Op::Bc(self.ty(), self.payload()),
                "eev" => Op::EEv(self.ent(), self.ty(), self.payload()),
                "res" => Op::Res(self.ty()),
                "resmut" => Op::ResMut(self.ty(), self.val()),
                "resset" => Op::ResSet(self.ty(), self.setval()),
                "resno" => Op::ResNo(self.ty(), self.val()),
                "ins" => Op::Ins(self.ent(), self.ty(), self.val()),
                "mut" => Op::Mut(self.ent(), self.ty(), self.val()),
                "set" => Op::Set(self.ent(), self.ty(), self.setval()),
                "noreact" => Op::NoReact(self.ent(), self.ty(), self.val()),
                "trig" => Op::Trig(self.ent(), self.ty()),
                "rm" => Op::Rm(self.ent(), self.ty()),
                "desp" => Op::Desp(self.ent()),
                "desprec" => Op::DespRec(self.ent()),
                "xdesp" => Op::XDesp(self.ent()),
                "xdesprec" => Op::XDespRec(self.ent()),
                "xrm" => Op::XRm(self.ent(), self.ty()),
                "xbc" => Op::XBc(self.ty(), self.payload()),
                "xeev" => Op::XEEv(self.ent(), self.ty(), self.payload()),
                "xsysev" => Op::XSysEv(self.sys(applied), self.payload()),
                "xres" => Op::XRes(self.ty()),
                "smut" => Op::SMut(self.ent(), self.ty(), self.val()),
                "sset" => Op::SSet(self.ent(), self.ty(), self.setval()),
                "sno" => Op::SNo(self.ent(), self.ty(), self.val()),
                "despsys" => Op::DespSys(self.sys(applied)),
                "rcdrop" => { if self.g.cfg.rcsys.is_empty() { continue; } let i = self.rng.gen_range(0..self.g.cfg.rcsys.len()); Op::RcDrop(self.g.cfg.rcsys[i] as u8) }
                "reg" =>
                {
                    let m = self.g.modes[self.rng.gen_range(0..self.g.modes.len())].clone();
                    let s = self.rng.gen_range(1..=self.g.cfg.nsys()) as u8;
                    let rc = m != "persistent";
                    // a system is either registered once in a reference-counted mode or any number of times persistently
                    if self.sysmode[s as usize] == 2 || (self.sysmode[s as usize] == 1 && rc) { continue; }
                    self.sysmode[s as usize] = if rc { 2 } else { 1 };
                    let b = self.bundle(s);
                    let k = if m == "revokable" { let k = self.next_tok; self.next_tok += 1; self.tokens.push(k); k } else { 0 };
                    Op::Reg(m, s, b, k)
                }
                "once" =>
                {
                    let Some(slot) = self.once_used.iter().position(|u| !*u) else { continue };
                    self.once_used[slot] = true;
                    let b = self.bundle(0);
                    let k = self.next_tok; self.next_tok += 1; self.tokens.push(k);
                    Op::Once((self.g.cfg.nsys() + 1 + slot) as u8, b, k)
                }
                "on" =>
                {
                    let Some(slot) = self.once_used.iter().position(|u| !*u) else { continue };
                    self.once_used[slot] = true;
                    let m = self.g.modes[self.rng.gen_range(0..self.g.modes.len())].clone();
                    let b = self.bundle(0);
                    let k = if m == "revokable" { let k = self.next_tok; self.next_tok += 1; self.tokens.push(k); k } else { 0 };
                    Op::On(m, (self.g.cfg.nsys() + 1 + slot) as u8, b, k)
                }
                "revoke" =>
                {
                    if self.tokens.is_empty() { continue; }
                    Op::Revoke(self.tokens[self.rng.gen_range(0..self.tokens.len())])
                }
                "probe" => Op::Probe,
                "wadd" => { if self.g.cfg.nworld == 0 { continue; } let w = self.rng.gen_range(1..=self.g.cfg.nworld) as u8; let b = self.bundle(100 + w); if b.is_empty() { continue; } Op::WAdd(w, b) }
                "wrem" => { if self.g.cfg.nworld == 0 { continue; } let w = self.rng.gen_range(1..=self.g.cfg.nworld) as u8; let b = self.bundle(0); if b.is_empty() { continue; } Op::WRem(w, b) }
                "wrun" => { if self.g.cfg.nworld == 0 { continue; } Op::WRun(self.rng.gen_range(1..=self.g.cfg.nworld) as u8) }
                "eadd" =>
                {
                    if self.g.cfg.neworld == 0 || in_ew { continue; }
                    let e = self.ent();
                    Op::EAdd(1, e, self.val())
                }
                "erem" =>
                {
                    if self.g.cfg.neworld == 0 || in_ew { continue; }
                    let e = self.ent();
                    let b = match self.rng.gen_range(0..5)
                    {
                        0 => vec![Trig::EMut(e, 1)], 1 => vec![Trig::EEv(e, 1)], 2 => vec![Trig::ERem(e, 1)],
                        3 => vec![Trig::EMut(e, 1), Trig::EEv(e, 1)], _ => vec![Trig::EMut(e, 1), Trig::EEv(e, 1), Trig::ERem(e, 1)],
                    };
                    Op::ERem(1, b)
                }
                "setlocal" => { if !in_ew { continue; } Op::SetLocal(self.val()) }
                _ => continue,
            };
            return Some(op);
        }
        None
    }

    fn ops(&mut self, in_ew: bool, exclusive: bool, min: usize, applied: &[bool]) -> Vec<Op>
    {
        let max = self.g.max_ops.min(self.budget);
        if max < min { return vec![]; }
        let n = self.rng.gen_range(min..=max);
        let mut out = vec![];
        // immediate calls are only made by exclusive systems, and (in the programs generated here) before anything is queued
        let imm: Vec<String> = self.g.alphabet.iter().filter(|n| matches!(n.as_str(), "irun" | "isysev" | "ibc" | "ieev")).cloned().collect();
        let nimm = if exclusive && !imm.is_empty() && n > 0 && self.rng.gen_range(0..100) < 50 { self.rng.gen_range(1..=n.min(2)) } else { 0 };
        for _ in 0..nimm
        {
            let name = imm[self.rng.gen_range(0..imm.len())].clone();
            out.push(match name.as_str()
            {
                "irun" => Op::IRun(self.sys(applied)),
                "isysev" => Op::ISysEv(self.sys(applied), self.payload()),
                "ibc" => Op::IBc(self.ty(), self.payload()),
                _ => Op::IEEv(self.ent(), self.ty(), self.payload()),
            });
        }
        for _ in nimm..n { if let Some(op) = self.op(in_ew, exclusive, applied) { out.push(op); } }
        self.budget -= out.len().min(self.budget);
        out
    }

    pub fn next_step(&mut self) -> Option<Step>
    {
        if self.steps_done >= self.g.steps { return None; }
        self.steps_done += 1;
        let step = if self.steps_done == 1 && !self.g.init.is_empty()
        {
            // tokens handed out by the init ops
            for op in self.g.init.clone()
            {
                if let Op::Reg(_, _, _, k) | Op::Once(_, _, k) = op { if k > 0 { self.tokens.push(k); self.next_tok = self.next_tok.max(k + 1); } }
                if let Op::Reg(m, s, b, _) = &op
                {
                    self.sysmode[*s as usize] = if m == "persistent" { 1 } else { 2 };
                    for t in b.iter() { self.regd.push((*s, *t)); }
                }
            }
            Step::Ops(self.g.init.clone())
        }
        else if self.rng.gen_range(0..100) < self.g.p_gcpoll
        {
            match self.rng.gen_range(0..3) { 0 => Step::Gc, 1 => Step::Poll, _ => Step::Clear }
        }
        else
        {
            // every ops step gets at least one op even when the budget is spent
            if self.budget == 0 { self.budget = 1; }
            // between trees everything issued has been applied
            let applied = self.once_used.clone();
            let xops: Vec<String> = self.g.alphabet.iter().filter(|n| matches!(n.as_str(), "xdesp" | "xdesprec" | "xrm" | "xbc" | "xeev" | "xsysev" | "xres")).cloned().collect();
            if !xops.is_empty() && self.rng.gen_range(0..100) < self.g.p_direct
            {
                let full = std::mem::replace(&mut self.g.alphabet, xops);
                let ops = self.ops(false, false, 1, &applied);
                self.g.alphabet = full;
                Step::Direct(ops)
            }
            else
            {
                let ops = self.ops(false, false, 1, &applied);
                if self.rng.gen_range(0..100) < self.g.p_frame { Step::Frame(ops) } else { Step::Ops(ops) }
            }
        };
        self.steps_log.push(step.clone());
        Some(step)
    }
}

pub struct SharedGen(pub Rc<RefCell<Gen>>);

impl ScriptSource for SharedGen
{
    fn script(&mut self, _r: u32, sys: usize, st: &HState) -> Script
    {
        let mut g = self.0.borrow_mut();
        let nsys = st.cfg.nsys();
        let in_ew = st.cfg.neworld > 0 && sys == nsys + st.cfg.nonce + st.cfg.nworld + 1;
        let exclusive = sys >= 1 && sys <= nsys && st.cfg.kinds[sys - 1] == "excl";
        let ops = g.ops(in_ew, exclusive, 0, &st.once_applied);
        let err = g.rng.gen_range(0..100) < g.g.p_err;
        let notake = g.rng.gen_range(0..100) < g.g.p_notake;
        let take2 = !notake && g.rng.gen_range(0..100) < 30;
        Script{ ops, err, notake, take2 }
    }
}

pub struct StepIter(pub Rc<RefCell<Gen>>);
impl Iterator for StepIter
{
    type Item = Step;
    fn next(&mut self) -> Option<Step> { self.0.borrow_mut().next_step() }
}
