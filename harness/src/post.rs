//! Turns the raw hook events into the observation stream (one JSON object per record, model ids instead of entities).

use crate::cob::HState;
use crate::types::*;
use bevy::prelude::*;
use bevy_cobweb::verif::Event;
use serde_json::{json, Value};
use std::any::TypeId;
use std::collections::HashMap;

#[derive(Copy, Clone, Debug, PartialEq)]
pub enum Id { Sys(usize), Ent(usize), Unknown }

pub fn map_entity(st: &HState, e: Entity) -> Id
{
    if let Some(i) = st.sys.iter().position(|x| *x == Some(e)) { return Id::Sys(i); }
    if let Some(i) = st.ent.iter().skip(1).position(|x| *x == e) { return Id::Ent(i + 1); }
    Id::Unknown
}

fn sys_id(st: &HState, e: Entity) -> i64 { match map_entity(st, e) { Id::Sys(i) => i as i64, _ => 0 } }
fn ent_id(st: &HState, e: Entity) -> i64
{
    match map_entity(st, e) { Id::Ent(i) => i as i64, Id::Sys(i) => 100 + i as i64, Id::Unknown => 0 }
}

/// Index (1-based) of a tag type within its family, by TypeId.
pub fn type_index(ty: TypeId) -> i64
{
    let ones = [TypeId::of::<B1>(), TypeId::of::<E1>(), TypeId::of::<C1>(), TypeId::of::<R1>(), TypeId::of::<P1>()];
    let twos = [TypeId::of::<B2>(), TypeId::of::<E2>(), TypeId::of::<C2>(), TypeId::of::<R2>()];
    if ones.contains(&ty) { 1 } else if twos.contains(&ty) { 2 } else { 0 }
}

pub fn system_command_entities(world: &mut World) -> Vec<Entity> { bevy_cobweb::verif::system_commands(world) }

const KIND_ORDER: [&str; 11] = ["bc", "res", "anyev", "ins", "mut", "rem", "eins", "emut", "erem", "eev", "desp"];

/// The registration tables in canonical order: `[kind, type, entity, system, rc]`.
pub fn tables_json(world: &mut World, map: impl Fn(Entity) -> Id) -> Value
{
    let entries = bevy_cobweb::verif::tables(world);
    let mut rows: Vec<(usize, i64, i64, usize, Value)> = Vec::new();
    for (pos, t) in entries.iter().enumerate()
    {
        let k = KIND_ORDER.iter().position(|k| *k == t.kind).unwrap_or(99);
        let ty = t.ty.map(type_index).unwrap_or(0);
        let ent = t.ent.map(|e| match map(e) { Id::Ent(i) => i as i64, Id::Sys(i) => 100 + i as i64, Id::Unknown => 0 }).unwrap_or(0);
        let sys = match map(t.sys) { Id::Sys(i) => i as i64, _ => 0 };
        rows.push((k, ty, ent, pos, json!([t.kind, ty, ent, sys, t.rc as u8])));
    }
    rows.sort_by(|a, b| (a.0, a.1, a.2, a.3).cmp(&(b.0, b.1, b.2, b.3)));
    Value::Array(rows.into_iter().map(|r| r.4).collect())
}

pub fn process(st: &HState, raw: Vec<Event>) -> Vec<Value>
{
    let mut out: Vec<Value> = Vec::with_capacity(raw.len());
    let mut data_ids: HashMap<Entity, i64> = HashMap::new();
    let mut next_data = 1i64;
    let mut data_id = |e: Entity| -> i64 {
        *data_ids.entry(e).or_insert_with(|| { let d = next_data; next_data += 1; d })
    };

    let mut i = 0usize;
    while i < raw.len()
    {
        match &raw[i]
        {
            Event::User(s) => { out.push(serde_json::from_str(s).expect("user record")); i += 1; }
            Event::Cmd{ kind, sys, src, rtype, data } =>
            {
                let (rk, rt) = rtype.map(|(k, t)| (k, type_index(t))).unwrap_or(("", 0));
                out.push(json!({
                    "t":"cmd", "kind":kind, "sys":sys_id(st, *sys),
                    "src": src.map(|e| ent_id(st, e)).unwrap_or(0),
                    "rk": rk, "rt": rt,
                    "data": data.map(&mut data_id).unwrap_or(0),
                }));
                i += 1;
            }
            Event::Sched{ trig, ty, ent } =>
            {
                let mut reactors: Vec<i64> = Vec::new();
                let mut d = 0i64;
                let mut j = i + 1;
                while j < raw.len()
                {
                    if let Event::Queued{ sys, data } = &raw[j]
                    {
                        reactors.push(sys_id(st, *sys));
                        if let Some(e) = data { d = data_id(*e); }
                        j += 1;
                    }
                    else { break; }
                }
                out.push(json!({
                    "t":"sched", "trig":trig, "ty": ty.map(type_index).unwrap_or(0),
                    "ent": ent.map(|e| ent_id(st, e)).unwrap_or(0), "data": d, "reactors": reactors,
                }));
                i = j;
            }
            Event::Queued{ sys, .. } =>
            {
                // a queued reaction without a header: report it as it is
                out.push(json!({"t":"strayq","sys":sys_id(st, *sys)}));
                i += 1;
            }
            Event::GcStart =>
            {
                // fold up to the matching GcEnd; records emitted in between (drops) follow the gc record
                let mut d: Vec<i64> = Vec::new();
                let mut rest: Vec<Value> = Vec::new();
                let mut j = i + 1;
                let mut closed = false;
                while j < raw.len()
                {
                    match &raw[j]
                    {
                        Event::GcEnd => { closed = true; j += 1; break; }
                        Event::GcDespawn{ ent } => { d.push(match map_entity(st, *ent) { Id::Sys(s) => s as i64, Id::Ent(e) => 100 + e as i64, Id::Unknown => 0 }); }
                        Event::User(s) => { rest.push(serde_json::from_str(s).expect("user record")); }
                        other => { rest.push(json!({"t":"unexpected","in":"gc","ev":format!("{other:?}")})); }
                    }
                    j += 1;
                }
                out.push(json!({"t":"gc","d":d,"closed":closed as u8}));
                out.extend(rest);
                i = j;
            }
            Event::GcDespawn{ .. } | Event::GcEnd => { out.push(json!({"t":"unexpected","ev":"gc fragment"})); i += 1; }
            Event::Enter{ k, sys, idx } => { out.push(json!({"t":"enter","k":k,"sys":sys_id(st, *sys),"idx":idx})); i += 1; }
            Event::Abort{ k, why } => { out.push(json!({"t":"abort","k":k,"why":why})); i += 1; }
            Event::Postpone{ k } => { out.push(json!({"t":"postpone","k":k})); i += 1; }
            Event::Take{ k } => { out.push(json!({"t":"take","k":k})); i += 1; }
            Event::Reinsert{ sys } => { out.push(json!({"t":"reinsert","sys":sys_id(st, *sys)})); i += 1; }
            Event::DropCallback{ sys } => { out.push(json!({"t":"dropcb","sys":sys_id(st, *sys)})); i += 1; }
            Event::Replay{ k } => { out.push(json!({"t":"replay","k":k})); i += 1; }
            Event::Discard{ k } => { out.push(json!({"t":"discard","k":k})); i += 1; }
            Event::Exit{ k } => { out.push(json!({"t":"exit","k":k})); i += 1; }
            Event::PollStart => { out.push(json!({"t":"poll"})); i += 1; }
            Event::PollEnd => { out.push(json!({"t":"pollend"})); i += 1; }
            Event::OnceDespawn{ sys, alive } => { out.push(json!({"t":"oncedespawn","sys":sys_id(st, *sys),"alive":*alive as u8})); i += 1; }
        }
    }
    out
}
