//! Generic interpreter: runs a `Program` against the real bevy_cobweb crate and records the observation stream.

use crate::post;
use crate::types::*;
use bevy::ecs::system::SystemParam;
use bevy::prelude::*;
use bevy_cobweb::prelude::*;
use serde_json::{json, Value};
use std::cell::RefCell;
use std::collections::HashMap;
use std::sync::atomic::{AtomicU32, Ordering};
use std::sync::Arc;

//----------------------------------------------------------------------------------------------------------------
// script source

pub trait ScriptSource
{
    /// Script for run `r` (1-based, global order) of system `sys`; asked before the readers are sampled.
    fn script(&mut self, r: u32, sys: usize, st: &HState) -> Script;
}

pub struct FixedScripts(pub Vec<Script>);
impl ScriptSource for FixedScripts
{
    fn script(&mut self, r: u32, _sys: usize, _st: &HState) -> Script
    {
        self.0.get(r as usize - 1).cloned().unwrap_or_default()
    }
}

//----------------------------------------------------------------------------------------------------------------
// thread-local harness state

pub struct HState
{
    pub cfg: Config,
    /// index 0 unused
    pub sys: Vec<Option<Entity>>,
    pub ent: Vec<Entity>,
    pub tokens: HashMap<u32, RevokeToken>,
    pub runs: u32,
    pub used_scripts: Vec<Script>,
    /// one-off slots whose `once` op has been applied (only then may other ops name the system)
    pub once_applied: Vec<bool>,
    /// signals of the systems spawned with `spawn_rc_system_command`
    pub rc_signals: HashMap<usize, AutoDespawnSignal>,
}

thread_local!
{
    static STATE: RefCell<Option<HState>> = const { RefCell::new(None) };
    static SOURCE: RefCell<Option<Box<dyn ScriptSource>>> = const { RefCell::new(None) };
}

fn with_state<T>(f: impl FnOnce(&mut HState) -> T) -> T
{
    STATE.with(|s| f(s.borrow_mut().as_mut().expect("harness state")))
}

fn sys_entity(s: u8) -> Option<Entity> { with_state(|st| st.sys.get(s as usize).copied().flatten()) }
fn ent_entity(e: u8) -> Entity { with_state(|st| st.ent.get(e as usize).copied().unwrap_or(Entity::PLACEHOLDER)) }

//----------------------------------------------------------------------------------------------------------------
// system params

#[derive(SystemParam)]
pub struct Readers<'w, 's>
{
    b1: BroadcastEvent<'w, 's, B1>,
    b2: BroadcastEvent<'w, 's, B2>,
    e1: EntityEvent<'w, 's, E1>,
    e2: EntityEvent<'w, 's, E2>,
    se: SystemEvent<'w, 's, P1>,
    i1: InsertionEvent<'w, 's, C1>,
    i2: InsertionEvent<'w, 's, C2>,
    m1: MutationEvent<'w, 's, C1>,
    m2: MutationEvent<'w, 's, C2>,
    r1: RemovalEvent<'w, 's, C1>,
    r2: RemovalEvent<'w, 's, C2>,
    d: DespawnEvent<'w>,
}

fn eid(e: Entity) -> u64
{
    with_state(|st| st.ent.iter().position(|x| *x == e).map(|i| i as u64).unwrap_or(99))
}

/// Samples every reader. The view is a list of `[kind, type, entity, payload]` readings (empty = sees nothing).
fn sample(r: &mut Readers, take: bool, take_twice: bool) -> Value
{
    let mut view: Vec<Value> = Vec::new();
    if let Ok(p) = r.b1.try_read() { view.push(json!(["bc", 1, 0, p.0])); }
    if let Ok(p) = r.b2.try_read() { view.push(json!(["bc", 2, 0, p.0])); }
    if let Ok((e, p)) = r.e1.try_read() { view.push(json!(["ee", 1, eid(e), p.0])); }
    if let Ok((e, p)) = r.e2.try_read() { view.push(json!(["ee", 2, eid(e), p.0])); }
    if take
    {
        if let Ok(p) = r.se.take()
        {
            view.push(json!(["se", 1, 0, p.0]));
            emit(json!({"t":"taken","p":p.0}));
            if take_twice && r.se.take().is_ok() { view.push(json!(["se2", 1, 0, 0])); }
        }
    }
    if let Ok(e) = r.i1.get() { view.push(json!(["ins", 1, eid(e), 0])); }
    if let Ok(e) = r.i2.get() { view.push(json!(["ins", 2, eid(e), 0])); }
    if let Ok(e) = r.m1.get() { view.push(json!(["mut", 1, eid(e), 0])); }
    if let Ok(e) = r.m2.get() { view.push(json!(["mut", 2, eid(e), 0])); }
    if let Ok(e) = r.r1.get() { view.push(json!(["rem", 1, eid(e), 0])); }
    if let Ok(e) = r.r2.get() { view.push(json!(["rem", 2, eid(e), 0])); }
    if let Ok(e) = r.d.get() { view.push(json!(["desp", 0, eid(e), 0])); }
    Value::Array(view)
}

#[derive(SystemParam)]
pub struct Access<'w, 's>
{
    c1: ReactiveMut<'w, 's, C1>,
    c2: ReactiveMut<'w, 's, C2>,
    r1: ReactResMut<'w, R1>,
    r2: ReactResMut<'w, R2>,
    w1: Reactor<'w, W1>,
    w2: Reactor<'w, W2>,
    despawner: Res<'w, AutoDespawner>,
    h1: Query<'w, 's, Entity, With<React<C1>>>,
    h2: Query<'w, 's, Entity, With<React<C2>>>,
}

/// Kept out of `Access`: the entity world reactor's own system already holds this resource through `EntityLocal`.
#[derive(SystemParam)]
pub struct EwAccess<'w>
{
    ew1: EntityReactor<'w, EW1>,
}

//----------------------------------------------------------------------------------------------------------------
// world reactors

pub struct W1;
pub struct W2;
pub struct EW1;

fn world_system(id: usize) -> SystemCommandCallback
{
    let cap = Arc::new(AtomicU32::new(0));
    let canary = Canary(id);
    SystemCommandCallback::new(
        move |mut readers: Readers, mut acc: Access, mut ew: EwAccess, mut c: Commands, mut local: Local<u32>| -> Result<(), IgnoredError>
        {
            let _ = &canary;
            body(id, &cap, &mut *local, &mut readers, Some(&mut acc), Some(&mut ew), &mut c, None)
        }
    )
}

impl WorldReactor for W1
{
    type StartingTriggers = ();
    type Triggers = DynBundle;
    fn reactor(self) -> SystemCommandCallback { world_system(with_state(|st| st.cfg.nsys() + st.cfg.nonce + 1)) }
}
impl WorldReactor for W2
{
    type StartingTriggers = ();
    type Triggers = DynBundle;
    fn reactor(self) -> SystemCommandCallback { world_system(with_state(|st| st.cfg.nsys() + st.cfg.nonce + 2)) }
}

impl EntityWorldReactor for EW1
{
    type Triggers = (EntityMutationTrigger<C1>, EntityEventTrigger<E1>, EntityRemovalTrigger<C1>);
    type Local = u32;
    fn reactor(self) -> SystemCommandCallback
    {
        let id = with_state(|st| st.cfg.nsys() + st.cfg.nonce + st.cfg.nworld + 1);
        let cap = Arc::new(AtomicU32::new(0));
        let canary = Canary(id);
        SystemCommandCallback::new(
            move |mut readers: Readers, mut acc: Access, mut c: Commands, mut local: Local<u32>, mut el: EntityLocal<EW1>|
                -> Result<(), IgnoredError>
            {
                let _ = &canary;
                body(id, &cap, &mut *local, &mut readers, Some(&mut acc), None, &mut c, Some(&mut el))
            }
        )
    }
}

//----------------------------------------------------------------------------------------------------------------
// the one body every harness system runs

fn fetch_script(r: u32, sys: usize) -> Script
{
    let script = SOURCE.with(|src| {
        STATE.with(|st| {
            let st = st.borrow();
            src.borrow_mut().as_mut().expect("script source").script(r, sys, st.as_ref().unwrap())
        })
    });
    with_state(|st| st.used_scripts.push(script.clone()));
    script
}

#[allow(clippy::too_many_arguments)]
fn body(
    id: usize,
    cap: &Arc<AtomicU32>,
    local: &mut u32,
    readers: &mut Readers,
    mut acc: Option<&mut Access>,
    mut ew: Option<&mut EwAccess>,
    c: &mut Commands,
    el: Option<&mut EntityLocal<EW1>>,
) -> Result<(), IgnoredError>
{
    *local += 1;
    let capv = cap.fetch_add(1, Ordering::SeqCst) + 1;
    let r = with_state(|st| { st.runs += 1; st.runs });
    let script = fetch_script(r, id);
    let view = sample(readers, !script.notake, script.take2);
    let mut rec = json!({"t":"run","r":r,"sys":id,"local":*local,"cap":capv,"view":view,
        "nt":script.notake as u8,"t2":script.take2 as u8,"el":[0, 0]});
    let mut el = el;
    if let Some(el) = el.as_mut()
    {
        // Entity world reactor: expose the local data of the reacting entity (panics inside cobweb are data).
        let got = std::panic::catch_unwind(std::panic::AssertUnwindSafe(|| { let (e, v) = el.get(); (eid(e), *v) }));
        rec["el"] = match got { Ok((e, v)) => json!([e, v]), Err(_) => json!([-1, -1]) };
    }
    emit(rec);
    for (i, op) in script.ops.iter().enumerate()
    {
        if let Op::SetLocal(v) = op
        {
            let mut ok = false;
            if let Some(el) = el.as_mut()
            {
                ok = std::panic::catch_unwind(std::panic::AssertUnwindSafe(|| { *el.get_mut().1 = *v; })).is_ok();
            }
            emit(json!({"t":"issue","r":r,"i":i+1,"op":op.to_json(),"ret":if ok {1} else {0}}));
            continue;
        }
        issue(op, r as i64, i + 1, c, acc.as_deref_mut(), ew.as_deref_mut());
    }
    emit(json!({"t":"bodyend","r":r,"err":script.err}));
    if script.err { Err(IgnoredError) } else { Ok(()) }
}

fn plain_system(id: usize)
    -> impl FnMut(Readers, Access, EwAccess, Commands, Local<u32>) -> Result<(), IgnoredError> + Send + Sync + 'static
{
    let cap = Arc::new(AtomicU32::new(0));
    let canary = Canary(id);
    move |mut readers: Readers, mut acc: Access, mut ew: EwAccess, mut c: Commands, mut local: Local<u32>|
    {
        let _ = &canary;
        body(id, &cap, &mut *local, &mut readers, Some(&mut acc), Some(&mut ew), &mut c, None)
    }
}

/// Exclusive (world-access) system: readers are sampled through an immediate nested syscall (part of the run),
/// ops are queued on the world's command queue (deferred until after the run; cleanup must come first).
fn exclusive_system(id: usize) -> impl FnMut(&mut World, Local<u32>) -> Result<(), IgnoredError> + Send + Sync + 'static
{
    let cap = Arc::new(AtomicU32::new(0));
    let canary = Canary(id);
    move |world: &mut World, mut local: Local<u32>|
    {
        let _ = &canary;
        *local += 1;
        let capv = cap.fetch_add(1, Ordering::SeqCst) + 1;
        let r = with_state(|st| { st.runs += 1; st.runs });
        let script = fetch_script(r, id);
        let view = world.syscall((!script.notake, script.take2), |In((t, tt)): In<(bool, bool)>, mut readers: Readers| sample(&mut readers, t, tt));
        emit(json!({"t":"run","r":r,"sys":id,"local":*local,"cap":capv,"view":view,
            "nt":script.notake as u8,"t2":script.take2 as u8,"el":[0, 0]}));
        for (i, op) in script.ops.iter().enumerate()
        {
            if let Op::IRun(s) | Op::ISysEv(s, _) = op
            {
                if sys_entity(*s).is_none() { emit(json!({"t":"issue","r":r,"i":i+1,"op":op.to_json(),"ret":-9})); continue; }
            }
            match op
            {
                Op::IRun(_) | Op::ISysEv(_, _) | Op::IBc(_, _) | Op::IEEv(_, _, _) =>
                {
                    // an immediate call: it runs now, nested in this body
                    emit(json!({"t":"issue","r":r,"i":i+1,"op":op.to_json(),"ret":0}));
                    emit(json!({"t":"apply","r":r,"i":i+1}));
                    match op
                    {
                        Op::IRun(s) => { bevy::ecs::world::Command::apply(SystemCommand(sys_entity(*s).unwrap()), world); }
                        Op::ISysEv(s, p) => { world.send_system_event(SystemCommand(sys_entity(*s).unwrap()), P1(*p, None)); }
                        Op::IBc(t, p) => { if *t == 1 { world.broadcast(B1(*p)); } else { world.broadcast(B2(*p)); } }
                        Op::IEEv(e, t, p) =>
                        {
                            let e = ent_entity(*e);
                            if *t == 1 { world.entity_event(e, B1(*p)); } else { world.entity_event(e, B2(*p)); }
                        }
                        _ => unreachable!(),
                    }
                    emit(json!({"t":"done","r":r,"i":i+1}));
                }
                _ => { let mut c = world.commands(); issue(op, r as i64, i + 1, &mut c, None, None); }
            }
        }
        emit(json!({"t":"bodyend","r":r,"err":script.err}));
        if script.err { Err(IgnoredError) } else { Ok(()) }
    }
}

//----------------------------------------------------------------------------------------------------------------
// probe

fn probe_system(In((r, i)): In<(i64, usize)>, mut readers: Readers)
{
    let view = sample(&mut readers, true, false);
    emit(json!({"t":"probe","r":r,"i":i,"view":view}));
}

//----------------------------------------------------------------------------------------------------------------
// issuing one op

fn mark(c: &mut Commands, t: &'static str, r: i64, i: usize)
{
    c.queue(move |_: &mut World| emit(json!({"t":t,"r":r,"i":i})));
}

fn mode_of(m: &str) -> ReactorMode
{
    match m { "persistent" => ReactorMode::Persistent, "cleanup" => ReactorMode::Cleanup, _ => ReactorMode::Revokable }
}

fn bundle(trigs: &[Trig]) -> DynBundle { DynBundle::new(trigs, ent_entity) }

/// Issues `op` the way user code would (at queue time), bracketed by `apply`/`done` marker commands.
fn issue(op: &Op, r: i64, i: usize, c: &mut Commands, acc: Option<&mut Access>, ew: Option<&mut EwAccess>)
{
    let mut ret = json!(0);
    let mut skipped = false;
    // ops that reference a system which has not been spawned (a one-off slot) are skipped
    let need_sys = match op { Op::Run(s) | Op::SysEv(s, _) | Op::XSysEv(s, _) | Op::SysEvSig(s, _, _) | Op::DespSys(s) | Op::Reg(_, s, _, _) => Some(*s), _ => None };
    // the single-entity accessors panic unless exactly one entity carries the component: only called when it is this one
    if let Op::SMut(e, x, _) | Op::SSet(e, x, _) | Op::SNo(e, x, _) = op
    {
        let want = ent_entity(*e);
        if let Some(acc) = acc.as_ref()
        {
            let holders: Vec<Entity> = if *x == 1 { acc.h1.iter().collect() } else { acc.h2.iter().collect() };
            if holders != vec![want] { skipped = true; }
        }
    }
    if let Some(s) = need_sys { if sys_entity(s).is_none() { skipped = true; } }
    if let Op::Revoke(k) = op { if !with_state(|st| st.tokens.contains_key(k)) { skipped = true; } }
    // a script written for another kind of system (on a changed crate the runs may come in another order than the program's author
    // - the model - expected): ops this system cannot perform are skipped, never a failure of the harness
    let needs_acc = matches!(op, Op::ResMut(..) | Op::ResSet(..) | Op::ResNo(..) | Op::Mut(..) | Op::Set(..) | Op::NoReact(..) | Op::SMut(..) | Op::SSet(..)
        | Op::SNo(..) | Op::WAdd(..) | Op::WRem(..) | Op::WRun(..) | Op::SysEvSig(..));
    let needs_ew = matches!(op, Op::EAdd(..) | Op::ERem(..));
    let imm = matches!(op, Op::IRun(..) | Op::ISysEv(..) | Op::IBc(..) | Op::IEEv(..));
    if (needs_acc && acc.is_none()) || (needs_ew && ew.is_none()) || imm { skipped = true; }
    if skipped
    {
        emit(json!({"t":"issue","r":r,"i":i,"op":op.to_json(),"ret":-9}));
        return;
    }

    mark(c, "apply", r, i);
    match op
    {
        Op::Run(s) => { c.queue(SystemCommand(sys_entity(*s).unwrap())); }
        Op::SysEv(s, p) => { c.send_system_event(SystemCommand(sys_entity(*s).unwrap()), P1(*p, None)); }
        Op::SysEvSig(s, p, e) =>
        {
            let acc = acc.expect("signal payload op in exclusive system");
            let sig = acc.despawner.prepare(ent_entity(*e));
            c.send_system_event(SystemCommand(sys_entity(*s).unwrap()), P1(*p, Some(sig)));
        }
        Op::Bc(t, p) => { if *t == 1 { c.react().broadcast(B1(*p)); } else { c.react().broadcast(B2(*p)); } }
        Op::EEv(e, t, p) =>
        {
            let e = ent_entity(*e);
            if *t == 1 { c.react().entity_event(e, B1(*p)); } else { c.react().entity_event(e, B2(*p)); }
        }
        Op::Res(x) =>
        {
            if *x == 1 { c.react().trigger_resource_mutation::<R1>(); } else { c.react().trigger_resource_mutation::<R2>(); }
        }
        Op::ResMut(x, v) =>
        {
            let acc = acc.expect("accessor op in exclusive system");
            if *x == 1 { acc.r1.get_mut(c).0 = *v; } else { acc.r2.get_mut(c).0 = *v; }
        }
        Op::ResSet(x, v) =>
        {
            let acc = acc.expect("accessor op in exclusive system");
            let old = if *x == 1 { acc.r1.set_if_neq(c, R1(*v)).map(|o| o.0) } else { acc.r2.set_if_neq(c, R2(*v)).map(|o| o.0) };
            ret = json!(old.map(|o| o as i64).unwrap_or(-1));
        }
        Op::ResNo(x, v) =>
        {
            let acc = acc.expect("accessor op in exclusive system");
            if *x == 1 { acc.r1.get_noreact().0 = *v; } else { acc.r2.get_noreact().0 = *v; }
        }
        Op::Ins(e, x, v) =>
        {
            let e = ent_entity(*e);
            // `ReactCommands::insert` queues nothing when the entity does not exist at queue time
            ret = json!(c.get_entity(e).is_some() as i32);
            if *x == 1 { c.react().insert(e, C1(*v)); } else { c.react().insert(e, C2(*v)); }
        }
        Op::Mut(e, x, v) =>
        {
            let acc = acc.expect("accessor op in exclusive system");
            let e = ent_entity(*e);
            let ok = if *x == 1 { acc.c1.get_mut(c, e).map(|m| m.0 = *v).is_ok() } else { acc.c2.get_mut(c, e).map(|m| m.0 = *v).is_ok() };
            ret = json!(if ok { 1 } else { -1 });
        }
        Op::Set(e, x, v) =>
        {
            let acc = acc.expect("accessor op in exclusive system");
            let e = ent_entity(*e);
            let old = if *x == 1 { acc.c1.set_if_neq(c, e, C1(*v)).map(|o| o.0) } else { acc.c2.set_if_neq(c, e, C2(*v)).map(|o| o.0) };
            ret = json!(old.map(|o| o as i64).unwrap_or(-1));
        }
        Op::NoReact(e, x, v) =>
        {
            let acc = acc.expect("accessor op in exclusive system");
            let e = ent_entity(*e);
            let ok = if *x == 1 { acc.c1.get_noreact(e).map(|m| m.0 = *v).is_ok() } else { acc.c2.get_noreact(e).map(|m| m.0 = *v).is_ok() };
            ret = json!(if ok { 1 } else { -1 });
        }
        Op::Trig(e, x) =>
        {
            let e = ent_entity(*e);
            let x = *x;
            c.queue(move |w: &mut World| { if x == 1 { React::<C1>::trigger_mutation(e, w); } else { React::<C2>::trigger_mutation(e, w); } });
        }
        Op::Rm(e, x) =>
        {
            let e = ent_entity(*e);
            if let Some(mut ec) = c.get_entity(e) { if *x == 1 { ec.remove::<React<C1>>(); } else { ec.remove::<React<C2>>(); } ret = json!(1); }
        }
        Op::Desp(e) =>
        {
            let e = ent_entity(*e);
            if let Some(mut ec) = c.get_entity(e) { ec.try_despawn(); ret = json!(1); }
        }
        Op::DespRec(e) =>
        {
            let e = ent_entity(*e);
            if let Some(ec) = c.get_entity(e) { ec.despawn_recursive(); ret = json!(1); }
        }
        Op::SMut(_, x, v) =>
        {
            let acc = acc.expect("accessor op in exclusive system");
            if *x == 1 { acc.c1.single_mut(c).1.0 = *v; } else { acc.c2.single_mut(c).1.0 = *v; }
            ret = json!(1);
        }
        Op::SSet(_, x, v) =>
        {
            let acc = acc.expect("accessor op in exclusive system");
            let old = if *x == 1 { acc.c1.set_single_if_not_eq(c, C1(*v)).1.map(|o| o.0) } else { acc.c2.set_single_if_not_eq(c, C2(*v)).1.map(|o| o.0) };
            ret = json!(old.map(|o| o as i64).unwrap_or(-1));
        }
        Op::SNo(_, x, v) =>
        {
            let acc = acc.expect("accessor op in exclusive system");
            if *x == 1 { acc.c1.single_noreact().1.0 = *v; } else { acc.c2.single_noreact().1.0 = *v; }
            ret = json!(1);
        }
        Op::XDesp(_) | Op::XDespRec(_) | Op::XRm(_, _) | Op::XBc(_, _) | Op::XEEv(_, _, _) | Op::XSysEv(_, _) | Op::XRes(_) =>
        {
            let op = op.clone();
            ret = json!(if matches!(op, Op::XBc(..) | Op::XEEv(..) | Op::XSysEv(..) | Op::XRes(..)) { 0 } else { 1 });
            c.queue(move |w: &mut World| direct(w, &op));
        }
        Op::DespSys(s) =>
        {
            let e = sys_entity(*s).unwrap();
            if let Some(mut ec) = c.get_entity(e) { ec.try_despawn(); ret = json!(1); }
        }
        Op::RcDrop(s) =>
        {
            // takes effect now, not when the queue is applied
            let had = with_state(|st| st.rc_signals.remove(&(*s as usize)));
            ret = json!(had.is_some() as i32);
            drop(had);
        }
        Op::Reg(m, s, b, k) =>
        {
            let token = c.react().with(bundle(b), SystemCommand(sys_entity(*s).unwrap()), mode_of(m));
            if let Some(token) = token { with_state(|st| { st.tokens.insert(*k, token); }); }
        }
        Op::Once(s, b, k) =>
        {
            let id = *s as usize;
            let token = c.react().once(bundle(b), plain_system(id));
            let entity = *SystemCommand::from(token.clone());
            with_state(|st| { st.sys[id] = Some(entity); st.tokens.insert(*k, token); });
            let slot = id - with_state(|st| st.cfg.nsys()) - 1;
            c.queue(move |_: &mut World| with_state(|st| st.once_applied[slot] = true));
        }
        Op::On(m, s, b, k) =>
        {
            let id = *s as usize;
            match m.as_str()
            {
                "persistent" => { let sc = c.react().on_persistent(bundle(b), plain_system(id)); with_state(|st| st.sys[id] = Some(*sc)); }
                "revokable" =>
                {
                    let token = c.react().on_revokable(bundle(b), plain_system(id));
                    let entity = *SystemCommand::from(token.clone());
                    with_state(|st| { st.sys[id] = Some(entity); st.tokens.insert(*k, token); });
                }
                _ => { c.react().on(bundle(b), plain_system(id)); }
            }
            let slot = id - with_state(|st| st.cfg.nsys()) - 1;
            // `on` does not say which entity it spawned: it is the one system command nobody knows yet
            c.queue(move |w: &mut World| {
                let found = post::system_command_entities(w);
                with_state(|st| {
                    if st.sys[id].is_none()
                    {
                        let known: Vec<Entity> = st.sys.iter().flatten().copied().collect();
                        st.sys[id] = found.into_iter().find(|e| !known.contains(e));
                    }
                    st.once_applied[slot] = true;
                });
            });
        }
        Op::Revoke(k) =>
        {
            let token = with_state(|st| st.tokens.get(k).cloned().unwrap());
            c.react().revoke(token);
        }
        Op::Probe => { c.syscall((r, i), probe_system); }
        Op::WAdd(w, b) =>
        {
            let acc = acc.expect("world reactor op in exclusive system");
            let ok = if *w == 1 { acc.w1.add(c, bundle(b)) } else { acc.w2.add(c, bundle(b)) };
            ret = json!(ok as i32);
        }
        Op::WRem(w, b) =>
        {
            let acc = acc.expect("world reactor op in exclusive system");
            let ok = if *w == 1 { acc.w1.remove(c, bundle(b)) } else { acc.w2.remove(c, bundle(b)) };
            ret = json!(ok as i32);
        }
        Op::WRun(w) =>
        {
            let acc = acc.expect("world reactor op in exclusive system");
            let ok = if *w == 1 { acc.w1.run(c) } else { acc.w2.run(c) };
            ret = json!(ok as i32);
        }
        Op::EAdd(_, e, v) =>
        {
            let ew = ew.expect("entity world reactor op needs EwAccess");
            ret = json!(ew.ew1.add(c, ent_entity(*e), *v) as i32);
        }
        Op::ERem(_, b) =>
        {
            let ew = ew.expect("entity world reactor op needs EwAccess");
            ret = json!(ew.ew1.remove(c, bundle(b)) as i32);
        }
        Op::SetLocal(_) => {}
        Op::IRun(_) | Op::ISysEv(_, _) | Op::IBc(_, _) | Op::IEEv(_, _, _) => panic!("immediate op outside an exclusive body: {:?}", op),
    }
    mark(c, "done", r, i);
    emit(json!({"t":"issue","r":r,"i":i,"op":op.to_json(),"ret":ret}));
}

/// Direct world access (no `Commands`): what a user's exclusive system or queued closure would do.
fn direct(w: &mut World, op: &Op)
{
    match op
    {
        Op::XDesp(e) => { w.despawn(ent_entity(*e)); }
        Op::XDespRec(e) => { despawn_with_children_recursive(w, ent_entity(*e), true); }
        Op::XRm(e, x) =>
        {
            if let Ok(mut em) = w.get_entity_mut(ent_entity(*e))
            {
                if *x == 1 { em.remove::<React<C1>>(); } else { em.remove::<React<C2>>(); }
            }
        }
        Op::XBc(t, p) => { if *t == 1 { w.broadcast(B1(*p)); } else { w.broadcast(B2(*p)); } }
        Op::XEEv(e, t, p) =>
        {
            let e = ent_entity(*e);
            if *t == 1 { w.entity_event(e, B1(*p)); } else { w.entity_event(e, B2(*p)); }
        }
        Op::XSysEv(s, p) => { if let Some(e) = sys_entity(*s) { w.send_system_event(SystemCommand(e), P1(*p, None)); } }
        Op::XRes(x) => { if *x == 1 { w.trigger_resource_mutation::<R1>(); } else { w.trigger_resource_mutation::<R2>(); } }
        _ => panic!("not a direct op: {:?}", op),
    }
}

//----------------------------------------------------------------------------------------------------------------
// driver

fn driver_system(In((step, ops)): In<(i64, Vec<Op>)>, mut acc: Access, mut ew: EwAccess, mut c: Commands)
{
    for (i, op) in ops.iter().enumerate()
    {
        issue(op, -step, i + 1, &mut c, Some(&mut acc), Some(&mut ew));
    }
}

thread_local! { static FRAME_OPS: RefCell<Option<(i64, Vec<Op>)>> = const { RefCell::new(None) }; }

/// Plain Bevy system in `Update`: issues the ops of the current frame step (if any).
fn frame_system(mut acc: Access, mut ew: EwAccess, mut c: Commands)
{
    let Some((step, ops)) = FRAME_OPS.with(|f| f.borrow_mut().take()) else { return; };
    for (i, op) in ops.iter().enumerate()
    {
        issue(op, -step, i + 1, &mut c, Some(&mut acc), Some(&mut ew));
    }
}

fn quiesce(world: &mut World, step: usize) -> Value
{
    let snap = bevy_cobweb::verif::snapshot(world);
    let tables = post::tables_json(world, |e| with_state(|st| post::map_entity(st, e)));
    let (alive_sys, alive_ent, comps, elocal) = with_state(|st| {
        let alive_sys: Vec<usize> = st.sys.iter().enumerate()
            .filter(|(_, e)| e.map(|e| world.get_entity(e).is_ok()).unwrap_or(false)).map(|(i, _)| i).collect();
        let alive_ent: Vec<usize> = st.ent.iter().enumerate().skip(1)
            .filter(|(_, e)| world.get_entity(**e).is_ok()).map(|(i, _)| i).collect();
        let mut comps: Vec<Value> = Vec::new();
        let mut elocal: Vec<usize> = Vec::new();
        for (i, e) in st.ent.iter().enumerate().skip(1)
        {
            if let Some(c) = world.get::<React<C1>>(*e) { comps.push(json!([i, 1, c.get().0])); }
            if let Some(c) = world.get::<React<C2>>(*e) { comps.push(json!([i, 2, c.get().0])); }
            if bevy_cobweb::verif::has_entity_world_local::<EW1>(world, *e) { elocal.push(i); }
        }
        (alive_sys, alive_ent, comps, elocal)
    });
    let missing: Vec<usize> = with_state(|st| snap.callbacks_missing.iter()
        .map(|e| st.sys.iter().position(|x| *x == Some(*e)).unwrap_or(0)).collect());
    json!({
        "t":"quiesce", "step": step,
        "counter": snap.counter, "buffered": snap.buffered,
        "prepared": snap.prepared, "reacting": snap.reacting.iter().map(|b| *b as u8).collect::<Vec<_>>(),
        "held": snap.despawn_handle_held as u8,
        "data": snap.data_entities, "missing": missing,
        "alive_sys": alive_sys, "alive_ent": alive_ent, "comps": comps,
        "res": [world.react_resource::<R1>().0, world.react_resource::<R2>().0],
        "elocal": elocal,
        "tables": tables,
    })
}

/// More events than any terminating program of the configured sizes produces (the longest are a few thousand).
const EVENT_LIMIT: usize = 60_000;

/// Result of running one program.
pub struct Outcome
{
    /// One JSON object per observation, in order.
    pub stream: Vec<Value>,
    /// The scripts actually used (run order): together with cfg and steps this is the replay file.
    pub scripts: Vec<Script>,
    pub panicked: bool,
}

thread_local! { static PANIC_FILE: RefCell<String> = const { RefCell::new(String::new()) }; }

/// Remembers where the last panic was raised (harness sources are `src/...`, the crate under test `/.../src/...`).
pub fn install_panic_hook()
{
    std::panic::set_hook(Box::new(|info| {
        let file = info.location().map(|l| format!("{}:{}", l.file(), l.line())).unwrap_or_default();
        PANIC_FILE.with(|f| *f.borrow_mut() = file);
    }));
}

pub fn run_program(cfg: &Config, steps: &mut dyn Iterator<Item = Step>, source: Box<dyn ScriptSource>) -> Outcome
{
    bevy_cobweb::verif::install();
    // a reaction tree that does not terminate ends as a caught panic (recorded with runaway = 1), not as memory exhaustion
    bevy_cobweb::verif::set_limit(EVENT_LIMIT);
    SOURCE.with(|s| *s.borrow_mut() = Some(source));

    let mut app = App::new();
    app.add_plugins(ReactPlugin);
    app.add_systems(Update, frame_system);
    app.insert_react_resource(R1(0));
    app.insert_react_resource(R2(0));

    let nsys = cfg.nsys();
    let total_sys = nsys + cfg.nonce + cfg.nworld + cfg.neworld + cfg.app.len();
    STATE.with(|s| *s.borrow_mut() = Some(HState{
        cfg: cfg.clone(),
        sys: vec![None; total_sys + 1],
        ent: vec![Entity::PLACEHOLDER; cfg.nent + 1],
        tokens: HashMap::new(),
        runs: 0,
        used_scripts: Vec::new(),
        once_applied: vec![false; cfg.nonce],
        rc_signals: HashMap::new(),
    }));

    {
        let world = app.world_mut();
        for i in 1..=cfg.nent
        {
            let e = world.spawn_empty().id();
            with_state(|st| st.ent[i] = e);
        }
        for i in 2..=cfg.hier.min(cfg.nent)
        {
            let (parent, child) = with_state(|st| (st.ent[i - 1], st.ent[i]));
            world.entity_mut(parent).add_child(child);
        }
        for i in 1..=nsys
        {
            if cfg.rcsys.contains(&i)
            {
                let sig = bevy_cobweb::prelude::spawn_rc_system_command(world, plain_system(i));
                with_state(|st| { st.sys[i] = Some(sig.entity()); st.rc_signals.insert(i, sig); });
                continue;
            }
            let sc = if cfg.kinds[i - 1] == "excl" { world.spawn_system_command(exclusive_system(i)) }
                     else { world.spawn_system_command(plain_system(i)) };
            with_state(|st| st.sys[i] = Some(*sc));
        }
    }
    if cfg.nworld >= 1 { app.add_world_reactor(W1); }
    if cfg.nworld >= 2 { app.add_world_reactor(W2); }
    if cfg.neworld >= 1 { app.add_entity_reactor(EW1); }
    // Systems the framework spawned itself are found by looking for new system command entities (in spawn order).
    let discover = |app: &mut App, first: usize| -> usize
    {
        let world = app.world_mut();
        let found: Vec<Entity> = post::system_command_entities(world);
        with_state(|st| {
            let known: Vec<Entity> = st.sys.iter().flatten().copied().collect();
            let mut extra: Vec<Entity> = found.into_iter().filter(|e| !known.contains(e)).collect();
            extra.sort();
            let n = extra.len();
            for (k, e) in extra.into_iter().enumerate()
            {
                let idx = first + k;
                if idx < st.sys.len() { st.sys[idx] = Some(e); }
            }
            n
        })
    };
    discover(&mut app, nsys + cfg.nonce + 1);
    // `App::add_reactor`: every call registers its own system (all harness closures have the same type)
    let app_first = nsys + cfg.nonce + cfg.nworld + cfg.neworld + 1;
    for (i, b) in cfg.app.iter().enumerate()
    {
        app.add_reactor(bundle(b), plain_system(app_first + i));
    }
    let appsys = if cfg.app.is_empty() { 0 } else { discover(&mut app, app_first) };

    emit(json!({"t":"cfg","nsys":nsys,"nonce":cfg.nonce,"nent":cfg.nent,"nworld":cfg.nworld,"neworld":cfg.neworld,
        "hier":cfg.hier,"app":cfg.to_json()["app"],"appsys":appsys,"rcsys":cfg.rcsys,"kinds":cfg.kinds}));
    let mut panicked = false;
    let mut n = 0usize;
    while let Some(step) = steps.next()
    {
        n += 1;
        emit(json!({"t":"drv","step":n,"kind":step.to_json()["kind"]}));
        let res = std::panic::catch_unwind(std::panic::AssertUnwindSafe(|| {
            match &step
            {
                Step::Ops(ops) => { app.world_mut().syscall((n as i64, ops.clone()), driver_system); }
                Step::Gc => { garbage_collect_entities(app.world_mut()); }
                Step::Poll => { schedule_removal_and_despawn_reactors(app.world_mut()); }
                // a real frame: the plugin's `Last` schedule runs GC and then the poll, `App::update` ends with clear_trackers
                Step::Clear => { app.update(); }
                Step::Direct(ops) =>
                {
                    let step = -(n as i64);
                    for (i, op) in ops.iter().enumerate()
                    {
                        let ret = if matches!(op, Op::XBc(..) | Op::XEEv(..) | Op::XSysEv(..) | Op::XRes(..)) { 0 } else { 1 };
                        emit(json!({"t":"issue","r":step,"i":i+1,"op":op.to_json(),"ret":ret}));
                    }
                    for (i, op) in ops.iter().enumerate()
                    {
                        emit(json!({"t":"apply","r":step,"i":i+1}));
                        direct(app.world_mut(), op);
                        emit(json!({"t":"done","r":step,"i":i+1}));
                    }
                }
                Step::Frame(ops) =>
                {
                    FRAME_OPS.with(|f| *f.borrow_mut() = Some((n as i64, ops.clone())));
                    app.update();
                }
            }
        }));
        if let Err(err) = res
        {
            let msg = err.downcast_ref::<String>().cloned().or_else(|| err.downcast_ref::<&str>().map(|s| s.to_string())).unwrap_or_default();
            let runaway = msg.starts_with(bevy_cobweb::verif::LIMIT_MSG);
            bevy_cobweb::verif::set_limit(usize::MAX);
            // a panic raised by the harness' own code is a defect of the machinery, not an observation
            let own = PANIC_FILE.with(|f| f.borrow().starts_with("src/")) && !runaway;
            if own { eprintln!("HARNESS-PANIC {} at {}", msg, PANIC_FILE.with(|f| f.borrow().clone())); std::process::exit(3); }
            emit(json!({"t":"panic","msg":msg,"runaway":runaway as u8}));
            panicked = true;
            break;
        }
        let q = quiesce(app.world_mut(), n);
        emit(q);
    }

    let raw = bevy_cobweb::verif::uninstall();
    let mut stream = with_state(|st| post::process(st, raw));
    // a runaway tree: keep the head of the stream and the final `panic` record
    if panicked && stream.len() > 6000 && stream.last().map(|o| o["runaway"] == 1).unwrap_or(false)
    {
        let last = stream.pop().unwrap();
        stream.truncate(5000);
        stream.push(last);
    }
    let scripts = with_state(|st| st.used_scripts.clone());
    // dropping the app emits drop/sysdrop records nobody listens to any more
    drop(app);
    SOURCE.with(|s| *s.borrow_mut() = None);
    STATE.with(|s| *s.borrow_mut() = None);
    Outcome{ stream, scripts, panicked }
}
