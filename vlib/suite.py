"""Trace validation of the repository's OWN test suite: the 81 tests are run with the hooks compiled in and
COBWEB_VERIF_DIR set (every test thread records its hook events and writes them out when it ends); every trace is then
judged by the runner-protocol monitor spec/HookProps.tla (TLC, spec/TraceHook.tla).  The tests' assertions are whatever
they are; the monitor checks every step of every execution they produce."""
import glob, json, os, shutil, subprocess, time
from . import tlc

PROPS = ("C01", "C02", "C08", "C09", "C11", "C12")     # properties whose checks run this stage (HookProps.tla tags these, and C18 / C00)

def _post(path):
    """Raw per-thread dump -> observation records (small integer ids by first appearance, sched and gc folded)."""
    ents, types, datas = {}, {}, {}
    def e(b):
        return 0 if b == 0 else ents.setdefault(b, len(ents) + 1)
    def ty(t):
        return 0 if not t else types.setdefault(t, len(types) + 1)
    def d(b):
        return 0 if b == 0 else datas.setdefault(b, len(datas) + 1)
    raw = [json.loads(l) for l in open(path) if l.strip()]
    out, i, panicked = [], 0, False
    while i < len(raw):
        o = raw[i]
        t = o["t"]
        if t == "cmd":
            out.append({"t": "cmd", "kind": o["kind"], "sys": e(o["sys"]), "src": e(o["src"]), "rk": o["rk"], "rt": ty(o["rt"]), "data": d(o["data"])})
            i += 1
        elif t == "sched_h":
            reactors, dd, j = [], 0, i + 1
            while j < len(raw) and raw[j]["t"] == "queued":
                reactors.append(e(raw[j]["sys"]))
                if raw[j]["data"]:
                    dd = d(raw[j]["data"])
                j += 1
            out.append({"t": "sched", "trig": o["trig"], "ty": ty(o["ty"]), "ent": e(o["ent"]), "data": dd, "reactors": reactors})
            i = j
        elif t == "gcstart":
            dl, closed, j, stray = [], 0, i + 1, 0
            while j < len(raw):
                if raw[j]["t"] == "gcend":
                    closed = 1
                    j += 1
                    break
                if raw[j]["t"] == "gcdespawn":
                    dl.append(e(raw[j]["ent"]))
                else:
                    stray += 1
                j += 1
            out.append({"t": "gc", "d": dl, "closed": closed})
            out += [{"t": "unexpected"}] * stray
            i = j
        elif t in ("enter", "reinsert", "dropcb", "oncedespawn"):
            o = dict(o)
            o["sys"] = e(o["sys"])
            out.append(o)
            i += 1
        elif t == "threadpanic":
            panicked = True
            i += 1
        elif t in ("abort", "postpone", "take", "replay", "discard", "exit", "poll", "pollend"):
            out.append(o)
            i += 1
        else:
            out.append({"t": "unexpected"})
            i += 1
    if not panicked:
        out.append({"t": "end"})       # the test returned: every tree has completed
    return out

def build(repo, target):
    """Compile the repository's tests with the hooks on (separate target directory; prebuilt by ./check setup)."""
    env = dict(os.environ, CARGO_NET_OFFLINE="true", RUSTFLAGS="--cfg cobweb_verif", CARGO_TARGET_DIR=target)
    if not os.path.exists(os.path.join(repo, "Cargo.lock")) and os.path.exists("/repo/Cargo.lock"):
        shutil.copyfile("/repo/Cargo.lock", os.path.join(repo, "Cargo.lock"))
    p = subprocess.run(["cargo", "test", "--offline", "--test", "tests", "--no-run"], cwd=repo, env=env, stdout=subprocess.PIPE,
                       stderr=subprocess.STDOUT, text=True)
    return p.returncode == 0, p.stdout[-2000:]

def run(repo, target, wd, timeout=600):
    """Returns dict(tests_passed, tests_failed, traces, records, violations=[{id,p,why,l}], sample) or raises RuntimeError."""
    t0 = time.time()
    tdir = os.path.join(wd, "suite_traces")
    shutil.rmtree(tdir, ignore_errors=True)
    os.makedirs(tdir)
    ok, tail = build(repo, target)
    if not ok:
        raise RuntimeError("the repository's tests do not build with --cfg cobweb_verif:\n" + tail)
    env = dict(os.environ, CARGO_NET_OFFLINE="true", RUSTFLAGS="--cfg cobweb_verif", CARGO_TARGET_DIR=target, COBWEB_VERIF_DIR=tdir)
    p = subprocess.run(["timeout", "-k", "10", str(timeout), "cargo", "test", "--offline", "--test", "tests"], cwd=repo, env=env,
                       stdout=subprocess.PIPE, stderr=subprocess.STDOUT, text=True)
    import re
    m = re.search(r"(\d+) passed; (\d+) failed", p.stdout)
    passed, failed = (int(m.group(1)), int(m.group(2))) if m else (0, 0)
    files = sorted(glob.glob(os.path.join(tdir, "*.ndjson")))
    if not files:
        raise RuntimeError("the test suite produced no traces:\n" + p.stdout[-1500:])
    trace = os.path.join(wd, "suite.trace.ndjson")
    nrec, sample = 0, None
    with open(trace, "w") as f:
        for path in files:
            recs = _post(path)
            f.write(json.dumps({"t": "reset", "id": os.path.basename(path)[:-7]}) + "\n")
            for o in recs:
                f.write(json.dumps(o) + "\n")
            nrec += 1 + len(recs)
            if sample is None and len(recs) > 20:
                sample = {"test": os.path.basename(path)[:-7], "head": recs[:10]}
    verdict = os.path.join(wd, "suite.verdict.json")
    if os.path.exists(verdict):
        os.remove(verdict)
    cfg = os.path.join(wd, "TraceHook.cfg")
    open(cfg, "w").write("SPECIFICATION HTSpec\nINVARIANT Verdict\nCHECK_DEADLOCK FALSE\n")
    res = tlc.run("TraceHook.tla", cfg, os.path.join(wd, "tlc_suite"), workers=1, timeout=300, env={"TRACE": trace, "OUT": verdict}, heap="2g")
    if not os.path.exists(verdict):
        raise RuntimeError("TraceHook produced no verdict:\n" + res.stdout[-2000:])
    v = json.load(open(verdict))
    if v["consumed"] != nrec:
        raise RuntimeError("TraceHook consumed %d of %d records" % (v["consumed"], nrec))
    return dict(tests_passed=passed, tests_failed=failed, traces=len(files), records=nrec, violations=v["violations"], sample=sample,
                wall_s=round(time.time() - t0, 1))
