"""C17: Syscall.tla model-checked, its behaviours replayed on the real syscall family, streams compared record by record,
plus property monitors over the recorded streams (state persists per key, keys independent, effects applied on return)."""
import json, os, shutil, subprocess, time
from . import tlc, progs, engine
from .engine import ToolError, log, WORK, EVIDENCE, BIN
from .small import save

KEYS = {"f1", "f2", "x1", "n1", "n2", "s1", "s2", "n3", "o1"}      # n3: the name of n1 with another system type; o1: syscall_once with f1's function
MC_KEYS = {"f1", "x1", "n1", "n3", "s1", "s2"}             # exhaustive model check: one key of every kind (two spawned ids, two systems under one name)

def program_of(hist):
    calls, scripts = [], {}
    for o in hist:
        if o["t"] == "drv":
            calls.append(o["key"])
        elif o["t"] == "call":
            scripts.setdefault(o["c"], [])
        elif o["t"] == "issue":
            scripts.setdefault(o["c"], []).append(o["op"])
    n = max(scripts) if scripts else 0
    return {"calls": calls, "scripts": [scripts.get(i, []) for i in range(1, n + 1)]}

def monitor_with_desp(stream):
    # interleave: a `desp` issue takes effect when the issuing body's commands are applied, i.e. after its bodyend
    alive = {"s1": True, "s2": True}
    pending = {}
    out = []
    # annotate stream with alive changes
    bad = []
    persisted, running = {}, []
    for o in stream:
        t = o["t"]
        if t == "issue" and o["op"][0] == "desp":
            pending.setdefault(o["c"], []).append(o["op"][1])
    # a despawn op issued by call c is applied somewhere between c's bodyend and c's ret: be tolerant in that window
    window = set()
    for o in stream:
        t = o["t"]
        if t == "call":
            k = o["key"]
            overlapping = any(r["key"] == k for r in running)
            if k[0] == "s":
                if overlapping:
                    bad.append("spawned system %s ran while it was already running" % k)
            if k[0] == "o":
                if o["local"] != 1:
                    bad.append("syscall_once %s did not run on a fresh system: call saw local %d" % (k, o["local"]))
            elif not overlapping:
                want = persisted.get(k, 0) + 1
                if o["local"] != want:
                    bad.append("state of key %s not persisted: call saw local %d, expected %d" % (k, o["local"], want))
            running.append(dict(key=k, local=o["local"], mark=o["mark"], marks=0, c=o["c"]))
        elif t == "issue" and o["op"][0] == "mark" and running:
            running[-1]["marks"] += 1
        elif t == "bodyend":
            for k in pending.get(o["c"], []):
                window.add(k)
        elif t == "ret":
            r = running.pop() if running else None
            if r is None or r["c"] != o["c"]:
                bad.append("return does not match the innermost running call")
                continue
            for k in pending.get(o["c"], []):
                alive[k] = False
                window.discard(k)
            if o["val"] != r["local"]:
                bad.append("call returned %d but ran with local %d" % (o["val"], r["local"]))
            if o["mark"] < r["mark"] + r["marks"]:
                bad.append("commands queued by the call were not applied when it returned")
            k = r["key"]
            if k[0] == "o":
                pass                                  # syscall_once keeps nothing
            elif k[0] != "s" or alive[k]:
                persisted[k] = r["local"]
        elif t == "err":
            k = o["key"]
            isrunning = any(r["key"] == k for r in running)
            if o["why"] == "running" and not isrunning:
                bad.append("spawned_syscall reported %s as running although it is not" % k)
    return bad

def check_c17(tier, seed):
    t0 = time.time()
    wd = os.path.join(WORK, "C17-" + tier)
    shutil.rmtree(wd, ignore_errors=True)
    os.makedirs(wd)
    build_s = engine.build_harness()
    quick = tier == "quick"
    consts = dict(Keys=MC_KEYS, MaxCalls=3 if quick else 4, MaxOps=2, MaxDepth=3, Mutants=set())
    cfg = os.path.join(wd, "SC.cfg")
    tlc.write_cfg(cfg, "Spec", consts, invariants=["TypeOK"], view="View")
    mc = tlc.run("Syscall.tla", cfg, os.path.join(wd, "mc"), workers=12, timeout=300 if quick else 1500, cache=True)
    if mc.error:
        raise ToolError("TLC error in Syscall.tla:\n" + mc.error)
    gconsts = dict(consts, Keys=KEYS, MaxCalls=6 if quick else 8, MaxOps=3, MaxDepth=4)
    gcfg = os.path.join(wd, "SCG.cfg")
    tlc.write_cfg(gcfg, "Spec", gconsts, invariants=["Emitted"])
    num = 1500 if quick else 20000
    gen = tlc.run("SCGen.tla", gcfg, os.path.join(wd, "gen"), workers=1, cache=True, timeout=300 if quick else 1500,
                  extra=["-simulate", "num=%d" % num, "-depth", "300", "-seed", str(seed)])
    hists = list(progs.parse_replay_lines(gen.stdout))
    if not hists:
        raise ToolError("no behaviours generated:\n" + gen.stdout[-2000:])
    seen, uniq = set(), []
    for h in hists:
        key = json.dumps(program_of(h), sort_keys=True)
        if key not in seen:
            seen.add(key)
            uniq.append(h)
    inp, outp = os.path.join(wd, "progs.ndjson"), os.path.join(wd, "obs.ndjson")
    with open(inp, "w") as f:
        for i, h in enumerate(uniq):
            f.write(json.dumps(dict(program_of(h), id=i)) + "\n")
    p = subprocess.run([BIN, "screplay", inp, outp], stdout=subprocess.PIPE, stderr=subprocess.STDOUT, text=True)
    if p.returncode != 0:
        raise ToolError("screplay failed: " + p.stdout[-2000:])
    viol, ok, drift = [], 0, 0
    for h, line in zip(uniq, open(outp)):
        r = json.loads(line)
        reasons = ["panic"] if r["panicked"] else monitor_with_desp(r["stream"])
        d = progs.first_diff(h, r["stream"])
        if reasons:
            viol.append((reasons, program_of(h), r["stream"]))
        elif d >= 0:
            # the model IS the statement of C17 for this alphabet: a stream it does not predict is a violation too
            viol.append((["stream differs from Syscall.tla at record %d: expected %s got %s"
                          % (d, json.dumps(h[d]) if d < len(h) else None, json.dumps(r["stream"][d]) if d < len(r["stream"]) else None)],
                         program_of(h), r["stream"]))
        else:
            ok += 1
    rc = 0
    for reasons, prog, stream in viol[:3]:
        path = save("C17", dict(property="C17", program=prog, reasons=reasons))
        log("VIOLATION property=C17 replay=%s" % path)
        log("  reason: %s" % reasons[0])
        rc = 1
    cov = dict(states=mc.distinct, transitions=mc.generated, traces_validated_against_impl=ok,
               samples=[{"program": program_of(uniq[0]), "stream": uniq[0][:14]}], exhaustive=mc.complete,
               behaviours_replayed=len(uniq), constants={k: (sorted(v) if isinstance(v, set) else v) for k, v in consts.items()})
    ev = dict(property_id="C17", tier=tier, seed=seed, level="model_checking", coverage=cov,
              assumptions=["Bevy applies a system's deferred commands in System::run / apply_deferred as DESIGN.md 4.3 states",
                           "nested calls on the same syscall / named key run on a fresh temporary state and the outermost state persists (documented caveat, modelled as is)"],
              wall_s=round(time.time() - t0, 1), violations=len(viol), build_s=round(build_s, 1))
    os.makedirs(EVIDENCE, exist_ok=True)
    json.dump(ev, open(os.path.join(EVIDENCE, "C17.json"), "w"), indent=1)
    if rc == 0:
        log("OK property=C17 tier=%s states=%d behaviours=%d wall=%.0fs" % (tier, mc.distinct, len(uniq), time.time() - t0))
    return rc
