"""The cobweb engine: model check, generate, replay, validate (TraceProps + TraceConf), verdict and evidence."""
import json, os, subprocess, sys, time, hashlib, shutil
from . import tlc, progs, configs, suite

ROOT = os.path.dirname(os.path.dirname(os.path.abspath(__file__)))
# Development aid (mutant sweeps on scratch worktrees, in parallel, without touching /repo): VERIF_REPO names another checkout
# of bevy_cobweb and VERIF_SCRATCH a directory that receives a copy of the harness (path dependency rewritten), the work files,
# the replays and the evidence. The registered checks never set these: they build against /repo and write into /verif.
REPO = os.environ.get("VERIF_REPO", "/repo")
SCRATCH = os.environ.get("VERIF_SCRATCH")
SKIP_MC = bool(os.environ.get("VERIF_SKIP_MC"))      # the model check does not depend on the code under test
if SCRATCH:
    SCRATCH = os.path.abspath(SCRATCH)
    HARNESS = os.path.join(SCRATCH, "harness")
    WORK = os.path.join(SCRATCH, "work")
    REPLAYS = os.path.join(SCRATCH, "replays")
    EVIDENCE = os.path.join(SCRATCH, "evidence")
else:
    if REPO != "/repo":
        raise SystemExit("VERIF_REPO needs VERIF_SCRATCH")
    HARNESS = os.path.join(ROOT, "harness")
    WORK = os.path.join(ROOT, "work")
    REPLAYS = os.path.join(ROOT, "replays")
    EVIDENCE = os.path.join(ROOT, "evidence")
BIN = os.path.join(HARNESS, "target", "debug", "cobweb_harness")

class ToolError(Exception):
    pass

def log(*a):
    print(*a, flush=True)

def build_harness(suite_too=False):
    """Rebuild the harness (and with it bevy_cobweb from /repo's working tree, hooks on)."""
    t0 = time.time()
    env = dict(os.environ, CARGO_NET_OFFLINE="true")
    if SCRATCH:
        src = os.path.join(ROOT, "harness")
        os.makedirs(HARNESS, exist_ok=True)
        subprocess.run(["rsync", "-a", "--delete", "--exclude", "target", src + "/", HARNESS + "/"], check=True)
        ct = os.path.join(HARNESS, "Cargo.toml")
        open(ct, "w").write(open(os.path.join(src, "Cargo.toml")).read().replace('path = "/repo"', 'path = "%s"' % REPO))
        seed = os.environ.get("VERIF_TARGET_SEED", os.path.join(src, "target"))
        if not os.path.exists(os.path.join(HARNESS, "target")) and os.path.exists(seed):
            subprocess.run(["cp", "-a", seed, os.path.join(HARNESS, "target")], check=True)
    p = subprocess.run(["cargo", "build", "--offline"], cwd=HARNESS, env=env, stdout=subprocess.PIPE, stderr=subprocess.STDOUT, text=True)
    if p.returncode != 0:
        tail = "\n".join(p.stdout.splitlines()[-40:])
        raise ToolError("harness build failed (does /repo still compile with --cfg cobweb_verif?)\n" + tail)
    if suite_too:
        ok, tail = suite.build(REPO, os.path.join(HARNESS, "target", "suite"))
        if not ok:
            raise ToolError("the repository's tests do not build with --cfg cobweb_verif:\n" + tail)
    return time.time() - t0

def known_findings():
    path = os.path.join(ROOT, "known_findings.json")
    if not os.path.exists(path):
        return []
    return [f for f in json.load(open(path))["findings"] if f.get("status") == "known"]

def is_known(v, known):
    for k in known:
        if k["property"] == v["p"] and v["why"].startswith(k["why_prefix"]):
            return k
    return None

# ----------------------------------------------------------------------------------------------------------------

def run_mc(group, gname, tier, wd, seed):
    """Exhaustive model check of Cobweb x Props at the tier's bound."""
    t = configs.TIERS[tier]
    consts = group[t["mc"]]
    cfg = os.path.join(wd, "MC_%s.cfg" % gname)
    invs = ["NoViol", "Inv_Stream", "RcOK", "IdleAtRest", "StackOK"]
    tlc.write_cfg(cfg, "Spec", consts, invariants=invs, subst=group["subst"])
    res = tlc.run("MC.tla", cfg, os.path.join(wd, "mc_" + gname), workers=12, timeout=t["mc_timeout"], keep_stdout=True, cache=True)
    return res, consts

def run_live(group, gname, tier, wd):
    """Liveness half of C02 in the model: under weak fairness every behaviour comes to rest (no livelock of the runner)."""
    t = configs.TIERS[tier]
    consts = group[t["mc"]]
    cfg = os.path.join(wd, "Live_%s.cfg" % gname)
    tlc.write_cfg(cfg, "FairSpec", consts, subst=group["subst"], properties=["Terminates"])
    res = tlc.run("MC.tla", cfg, os.path.join(wd, "live_" + gname), workers=12, timeout=t["mc_timeout"], keep_stdout=True, cache=True)
    checked = "Checking temporal properties for the complete state space" in res.stdout
    violated = "Temporal properties were violated" in res.stdout
    return res, checked, violated

def run_gen(group, gname, tier, wd, seed):
    """Behaviours by TLC simulation: [(hist)]."""
    t = configs.TIERS[tier]
    consts = group["gen"]
    cfg = os.path.join(wd, "Gen_%s.cfg" % gname)
    tlc.write_cfg(cfg, "GSpec", consts, invariants=["Emitted"], subst=group.get("gen_subst", group["subst"]))
    extra = ["-simulate", "num=%d" % t["sim_num"], "-depth", str(t["sim_depth"]), "-seed", str(seed)]
    res = tlc.run("Gen.tla", cfg, os.path.join(wd, "gen_" + gname), workers=1, timeout=t["sim_timeout"], extra=extra, cache=True)
    hists = list(progs.parse_replay_lines(res.stdout))
    if not hists and not res.timed_out:
        raise ToolError("TLC generated no behaviours for group %s:\n%s" % (gname, res.stdout[-2000:]))
    # distinct programs only
    seen, out = set(), []
    for h in hists:
        key = hashlib.sha1(progs.canon(progs.program_of(h)).encode()).hexdigest()
        if key not in seen:
            seen.add(key)
            out.append(h)
    return out, res

def run_enum(en, ename, tier, wd):
    """Every behaviour of a small driver-only configuration, by breadth-first search."""
    t = configs.TIERS[tier]
    consts = dict(en["consts"])
    if "budget" in en:
        consts["Budget"] = en["budget"][tier]          # the configuration fixes MaxOps / BodyOps itself
    else:
        consts["Budget"] = t["enum_budget"]
        consts["MaxOps"] = t["enum_budget"]
    cfg = os.path.join(wd, "Enum_%s.cfg" % ename)
    tlc.write_cfg(cfg, "GSpec", consts, invariants=["NoViol", "Emitted"], subst=en["subst"])
    res = tlc.run("Gen.tla", cfg, os.path.join(wd, "enum_" + ename), workers=8, timeout=t["enum_timeout"], cache=True)
    if res.error:
        raise ToolError("TLC error while enumerating %s:\n%s" % (ename, res.error))
    hists = list(progs.parse_replay_lines(res.stdout))
    return hists, res, consts

def harness_replay(programs, wd, name):
    inp = os.path.join(wd, name + ".progs.ndjson")
    outp = os.path.join(wd, name + ".obs.ndjson")
    with open(inp, "w") as f:
        for p in programs:
            f.write(json.dumps(p) + "\n")
    p = subprocess.run([BIN, "replay", inp, outp], stdout=subprocess.PIPE, stderr=subprocess.STDOUT, text=True)
    if p.returncode != 0:
        raise ToolError("harness replay failed: " + p.stdout[-2000:])
    return [json.loads(l) for l in open(outp)]

def harness_random(gencfg, seed, n, wd, name):
    gpath = os.path.join(wd, name + ".gen.json")
    outp = os.path.join(wd, name + ".rnd.ndjson")
    json.dump(gencfg, open(gpath, "w"))
    p = subprocess.run([BIN, "random", gpath, str(seed), str(n), outp], stdout=subprocess.PIPE, stderr=subprocess.STDOUT, text=True)
    if p.returncode != 0:
        raise ToolError("harness random failed: " + p.stdout[-2000:])
    return [json.loads(l) for l in open(outp)]

def _chunks(records, n):
    """Split records into at most n chunks of nearly equal total stream length (whole programs only)."""
    total = sum(len(r["stream"]) + 1 for r in records)
    n = max(1, min(n, total // 20000 + 1))       # a TLC process costs ~3 s to start: no more chunks than worth it
    target = max(1, total // n + 1)
    out, cur, size = [], [], 0
    for r in records:
        cur.append(r)
        size += len(r["stream"]) + 1
        if size >= target and len(out) < n - 1:
            out.append(cur)
            cur, size = [], 0
    if cur:
        out.append(cur)
    return out

def _trace_props_one(args):
    records, wd, name, timeout = args
    trace = os.path.join(wd, name + ".trace.ndjson")
    verdict = os.path.join(wd, name + ".verdict.json")
    if os.path.exists(verdict):
        os.remove(verdict)
    nrec = 0
    with open(trace, "w") as f:
        for r in records:
            f.write(json.dumps({"t": "reset", "id": str(r["id"])}) + "\n")
            nrec += 1
            for o in r["stream"]:
                f.write(json.dumps(o) + "\n")
                nrec += 1
    cfg = os.path.join(tlc.SPEC, "TraceProps.cfg")
    res = tlc.run("TraceProps.tla", cfg, os.path.join(wd, "tp_" + name), workers=1, timeout=timeout,
                  env={"TRACE": trace, "OUT": verdict}, heap="3g")
    if not os.path.exists(verdict):
        return ("error", "TraceProps produced no verdict (%s):\n%s" % ("timeout" if res.timed_out else "error", res.stdout[-3000:]))
    v = json.load(open(verdict))
    if v["consumed"] != nrec:
        return ("error", "TraceProps consumed %d of %d records" % (v["consumed"], nrec))
    return ("ok", v["violations"], nrec)

PAR = 8

def trace_props(records, wd, name, timeout):
    """records: [{id, stream}] -> (violations [{id, p, why, l}], number of records). Runs PAR TLC processes on chunks."""
    from concurrent.futures import ThreadPoolExecutor
    chunks = _chunks(records, PAR)
    jobs = [(c, wd, "%s_c%d" % (name, i), timeout) for i, c in enumerate(chunks)]
    with ThreadPoolExecutor(max_workers=PAR) as ex:
        results = list(ex.map(_trace_props_one, jobs))
    viol, nrec = [], 0
    for r in results:
        if r[0] == "error":
            raise ToolError(r[1])
        viol += r[1]
        nrec += r[2]
    return viol, nrec

def _trace_conf_one(args):
    records, cfg, wd, name, timeout, max_restarts = args
    accepted, rejected = [], []
    todo = list(records)
    restarts = 0
    while todo:
        pfile = os.path.join(wd, name + ".tc.ndjson")
        out = os.path.join(wd, name + ".tc.json")
        if os.path.exists(out):
            os.remove(out)
        with open(pfile, "w") as f:
            for r in todo:
                f.write(json.dumps({"id": str(r["id"]), "prog": {"steps": r["program"]["steps"], "scripts": r["program"]["scripts"]},
                                    "stream": r["stream"]}) + "\n")
        res = tlc.run("TraceConf.tla", cfg, os.path.join(wd, "tc_" + name), workers=1, timeout=timeout,
                      env={"PROGS": pfile, "OUT": out}, heap="3g")
        if not os.path.exists(out):
            return ("error", "TraceConf produced no report (%s):\n%s" % ("timeout" if res.timed_out else "error", res.stdout[-3000:]))
        rep = json.load(open(out))
        pi, l, fin = rep["pi"], rep["l"], rep["fin"]
        accepted += [r["id"] for r in todo[:pi - 1]]
        if fin and pi == len(todo):
            accepted.append(todo[pi - 1]["id"])
            todo = []
        else:
            rejected.append((todo[pi - 1]["id"], l - 1))
            todo = todo[pi:]
            restarts += 1
            if restarts >= max_restarts:
                rejected += [(r["id"], -1) for r in todo]   # not examined
                todo = []
    return ("ok", accepted, rejected)

def trace_conf(records, cfgrec, wd, name, timeout, max_restarts=4, appname=None):
    """Validate recorded streams as behaviours of Cobweb.tla. Returns (accepted ids, rejected [(id, record index)])."""
    from concurrent.futures import ThreadPoolExecutor
    consts = configs.C(NSys=len(cfgrec["kinds"]), NOnce=cfgrec.get("nonce", 0), NW=cfgrec.get("nworld", 0), NER=cfgrec.get("neworld", 0),
                       NEnt=cfgrec.get("nent", 1), Hier=cfgrec.get("hier", 0), Excl={i + 1 for i, k in enumerate(cfgrec["kinds"]) if k == "excl"}, RcSys=set(cfgrec.get("rcsys", [])), NTy=2, NVal=2, MaxOps=0, Budget=0,
                       MaxSteps=0, StepKinds=set(), Scripted=True)
    cfg = os.path.join(wd, "TC_%s.cfg" % name)
    tlc.write_cfg(cfg, "TCSpec", consts, constraints=["Progress"], postconditions=["Report"],
                  subst=dict(Bundles="NoSetTC", InitOps="NoOps", AppRegs=appname or "App_None"))
    if not records:
        return [], []
    chunks = _chunks(records, PAR)
    jobs = [(c, cfg, wd, "%s_c%d" % (name, i), timeout, max_restarts) for i, c in enumerate(chunks)]
    with ThreadPoolExecutor(max_workers=PAR) as ex:
        results = list(ex.map(_trace_conf_one, jobs))
    acc, rej = [], []
    for r in results:
        if r[0] == "error":
            raise ToolError(r[1])
        acc += r[1]
        rej += r[2]
    return acc, rej

CROSS = 60          # replayed programs whose predicted verdict is cross-checked by running the monitors on the recorded stream
NEED_CAP = 2500     # at most this many deviating programs go through the monitors (the rest only count as drift)

def judge(hists, obs, extra, wd, name, timeout):
    """Monitor verdicts for replayed programs (hists[i] = the model's prediction with ITS verdict, obs[i] = the recorded execution)
    and for `extra` recorded executions without a prediction. A recorded stream that equals the prediction record for record has
    the prediction's verdict (the monitors are a function of the stream; TLC computed it in Gen.tla); every other stream, the
    extra ones and a sample of the equal ones (cross-check) are run through TraceProps.
    Returns (violations [{id,p,why,l}], records judged, drift [(id, index of the first differing record)])."""
    matched, need, drift = [], [], []
    for h, r in zip(hists, obs):
        d = progs.first_diff(h, r["stream"])
        if d < 0:
            matched.append((h, r))
        else:
            need.append(r)
            drift.append((r["id"], d))
    viol = []
    nrec = 0
    for h, r in matched[CROSS:]:
        nrec += len(r["stream"]) + 1
        for pw in h.viol:
            viol.append(dict(id=str(r["id"]), p=pw[0], why=pw[1], l=-1))
    sample = matched[:CROSS]
    through = [r for h, r in sample] + need[:NEED_CAP] + list(extra)
    tp, n2 = trace_props(through, wd, name, timeout) if through else ([], 0)
    nrec += n2
    got = {}
    for v in tp:
        got.setdefault(v["id"], set()).add((v["p"], v["why"]))
    for h, r in sample:
        if got.get(str(r["id"]), set()) != set(tuple(x) for x in h.viol):
            raise ToolError("verdict computed by TLC in Gen.tla and verdict of TraceProps differ for program %s: %s vs %s"
                            % (r["id"], sorted(set(tuple(x) for x in h.viol)), sorted(got.get(str(r["id"]), set()))))
    viol += tp
    return viol, nrec, drift

# ----------------------------------------------------------------------------------------------------------------

def save_replay(prop, rec):
    os.makedirs(REPLAYS, exist_ok=True)
    body = {"property": prop, "id": str(rec["id"]), "program": rec["program"]}
    h = hashlib.sha1(progs.canon(rec["program"]).encode()).hexdigest()[:10]
    path = os.path.join(REPLAYS, "%s-%s.json" % (prop, h))
    json.dump(body, open(path, "w"), indent=1)
    return path

def check_property(prop, tier, seed):
    t0 = time.time()
    groups = configs.PROP_GROUPS[prop]
    wd = os.path.join(WORK, "%s-%s" % (prop, tier))
    shutil.rmtree(wd, ignore_errors=True)
    os.makedirs(wd)
    known = known_findings()
    cov = dict(states=0, transitions=0, traces_validated_against_impl=0, samples=[], groups={}, behaviours_replayed=0, drift=0,
               random_programs=0, records_validated=0, exhaustive=True)
    notes = []
    build_s = build_harness()
    violations = []          # (violation, record)
    knownhits = {}
    model_alarm = None
    # the failing histories of the known findings listed for this property, replayed first
    for k in known:
        if k["property"] != prop or not k.get("replay"):
            continue
        body = json.load(open(os.path.join(ROOT, k["replay"])))
        p0 = dict(body["program"])
        p0["id"] = "finding-" + k["id"]
        o0 = harness_replay([p0], wd, "finding_" + k["id"])
        v0, n0 = trace_props(o0, wd, "finding_" + k["id"], 300)
        cov["records_validated"] += n0
        if any(v["p"] == prop and is_known(v, known) for v in v0):
            knownhits.setdefault(k["id"], k)
        else:
            notes.append("known finding %s did not reproduce on this tree (replay %s)" % (k["id"], k["replay"]))
        for v in v0:
            if v["p"] == prop and not is_known(v, known):
                violations.append((v, o0[0]))
    for gname in groups:
        group = configs.GROUPS[gname]
        g = dict()
        # (a) model check
        if configs.TIERS[tier]["mc"] in group and not SKIP_MC:
            mc, consts = run_mc(group, gname, tier, wd, seed)
            if mc.error:
                raise ToolError("TLC error in model check of group %s:\n%s" % (gname, mc.error))
            g["mc"] = dict(cached=mc.cached, distinct=mc.distinct, generated=mc.generated, depth=mc.depth, complete=mc.complete, timed_out=mc.timed_out,
                           wall_s=round(mc.wall, 1), constants={k: (sorted(v) if isinstance(v, (set, frozenset)) else v) for k, v in consts.items()})
            cov["states"] += mc.distinct
            cov["transitions"] += mc.generated
            if not mc.complete:
                cov["exhaustive"] = False
            if mc.violated:
                model_alarm = (gname, mc.violated)
                g["mc"]["violated"] = mc.violated
            if prop == "C02" and gname == groups[0]:
                lv, checked, lviol = run_live(group, gname, tier, wd)
                g["liveness"] = dict(property="Terminates == <>[](stack empty /\\ ~ENABLED Next) under WF_vars(Next)", states=lv.distinct,
                                     temporal_check_completed=checked, violated=lviol, cached=lv.cached, wall_s=round(lv.wall, 1))
                if lviol or (lv.error and not lv.timed_out):
                    model_alarm = (gname, "Terminates")
        # (b) spec -> impl
        if "gen" in group:
            hists, gres = run_gen(group, gname, tier, wd, seed)
        else:
            hists, gres = [], None
        programs = []
        for i, h in enumerate(hists):
            p = progs.program_of(h)
            p["id"] = "%s-gen-%d" % (gname, i)
            programs.append(p)
        obs = harness_replay(programs, wd, gname + "_gen")
        # (c) impl -> spec: random programs of the same alphabet
        rcfg = dict(group["rnd"])
        rcfg.setdefault("cfg", {})
        rnd = harness_random(rcfg, seed, max(20, int(configs.TIERS[tier]["rnd_n"] * rcfg.get("rnd_scale", 1.0))), wd, gname)
        cov["random_programs"] += len(rnd)
        allrecs = obs + rnd
        viol, nrec, drift = judge(hists, obs, rnd, wd, gname, configs.TIERS[tier]["tp_timeout"])
        g["gen"] = dict(behaviours=len(hists), drift=len(drift), first_drift=drift[:3], wall_s=round(gres.wall, 1) if gres else 0)
        cov["behaviours_replayed"] += len(hists)
        cov["drift"] += len(drift)
        cov["records_validated"] += nrec
        byid = {str(r["id"]): r for r in allrecs}
        bad_ids = set()
        for v in viol:
            if v["p"] != prop:
                continue
            k = is_known(v, known)
            if k:
                knownhits.setdefault(k["id"], k)
                continue
            violations.append((v, byid[v["id"]]))
            bad_ids.add(v["id"])
        g["other_property_tags"] = sorted({v["p"] for v in viol if v["p"] != prop})
        # conformance of the random programs (the generated ones were compared record by record above)
        cfgrec = rcfg["cfg"]
        acc, rej = trace_conf(rnd, cfgrec, wd, gname, configs.TIERS[tier]["tc_timeout"], appname=group.get("subst", {}).get("AppRegs"))
        g["conf"] = dict(accepted=len(acc), rejected=len(rej), first_rejected=rej[:3])
        cov["drift"] += len(rej)
        ok_ids = set(str(i) for i in acc) | ({str(r["id"]) for r in obs} - {str(i) for i, d in drift})
        cov["traces_validated_against_impl"] += len([i for i in ok_ids if i not in bad_ids])
        if len(cov["samples"]) < 4 and allrecs:
            cov["samples"].append({"group": gname, "program": allrecs[0]["program"], "stream_head": allrecs[0]["stream"][:12]})
            if rnd:
                cov["samples"].append({"group": gname, "program": rnd[min(3, len(rnd) - 1)]["program"]})
        cov["groups"][gname] = g
    # (d) exhaustive enumeration of short driver sequences on the real crate
    for ename in configs.PROP_ENUMS.get(prop, []):
        en = configs.ENUMS[ename]
        hists, eres, econsts = run_enum(en, ename, tier, wd)
        e = dict(programs=len(hists), complete=eres.complete, timed_out=eres.timed_out, states=eres.distinct, wall_s=round(eres.wall, 1),
                 constants={k: (sorted(v) if isinstance(v, (set, frozenset)) else v) for k, v in econsts.items()})
        if eres.violated and eres.violated != "Emitted":
            model_alarm = (ename, eres.violated)
        programs = []
        for i, h in enumerate(hists):
            p = progs.program_of(h)
            p["id"] = "%s-enum-%d" % (ename, i)
            programs.append(p)
        obs = harness_replay(programs, wd, ename + "_enum") if programs else []
        viol, nrec, edrift = judge(hists, obs, [], wd, ename + "_enum", configs.TIERS[tier]["tp_timeout"])
        nd = len(edrift)
        okids = {str(r["id"]) for r in obs} - {str(i) for i, d in edrift}
        byid = {str(r["id"]): r for r in obs}
        bad_ids = set()
        for v in viol:
            if v["p"] != prop:
                continue
            k = is_known(v, known)
            if k:
                knownhits.setdefault(k["id"], k)
                continue
            violations.append((v, byid[v["id"]]))
            bad_ids.add(v["id"])
        e["drift"] = nd
        cov["drift"] += nd
        cov["records_validated"] += nrec
        cov["behaviours_replayed"] += len(hists)
        cov["traces_validated_against_impl"] += len(okids - bad_ids)
        cov.setdefault("enumerated_on_impl", {})[ename] = e
        cov["states"] += eres.distinct
        cov["transitions"] += eres.generated
        if not eres.complete:
            cov["exhaustive"] = False
    # (e) the repository's own test suite, run with the hooks on: every trace judged by the runner-protocol monitor
    if prop in suite.PROPS:
        try:
            sr = suite.run(REPO, os.path.join(HARNESS, "target", "suite"), wd)
        except RuntimeError as ex:
            raise ToolError(str(ex))
        mine = [v for v in sr["violations"] if v["p"] == prop]
        cov["test_suite"] = dict(tests_passed=sr["tests_passed"], tests_failed=sr["tests_failed"], traces=sr["traces"], records=sr["records"],
                                 violations=len(mine), sample=sr["sample"], wall_s=sr["wall_s"])
        cov["records_validated"] += sr["records"]
        cov["traces_validated_against_impl"] += sr["traces"] - len({v["id"] for v in mine})
        for v in mine:
            violations.append((v, dict(id=v["id"], program=dict(kind="suite", test=v["id"], line=v["l"]))))
    # verdict
    rc = 0
    for k in knownhits.values():
        log("KNOWN-FINDING: property=%s %s" % (k["property"], k["what"]))
    if cov["drift"]:
        log("NOTE drift=%d (observed stream differs from the model's prediction without a %s monitor failing)" % (cov["drift"], prop))
    seenp = set()
    for v, rec in violations:
        path = save_replay(prop, rec)
        if path in seenp:
            continue
        seenp.add(path)
        log("VIOLATION property=%s replay=%s" % (prop, path))
        log("  reason: %s (program %s, trace line %s)" % (v["why"], v["id"], v["l"]))
        rc = 1
        if len(seenp) >= 5:
            break
    if model_alarm and rc == 0:
        log("TOOL-ERROR model check of group %s violates %s although the implementation traces satisfy %s; the model is wrong"
            % (model_alarm[0], model_alarm[1], prop))
        rc = 2
    ev = dict(property_id=prop, tier=tier, seed=seed, level="model_checking", coverage=cov,
              assumptions=["Bevy 0.15 command queue, RemovedComponents, Arc and crossbeam channels behave as DESIGN.md 4.3 states",
                           "the cfg(cobweb_verif) hooks report the steps they are placed at (MANIFEST.hooks)",
                           "exhaustive only within the stated constants; beyond them sampled by TLC simulation and the harness generator"],
              wall_s=round(time.time() - t0, 1), violations=len(seenp), known_findings=sorted(knownhits), build_s=round(build_s, 1), notes=notes)
    os.makedirs(EVIDENCE, exist_ok=True)
    json.dump(ev, open(os.path.join(EVIDENCE, prop + ".json"), "w"), indent=1)
    if rc == 0:
        log("OK property=%s tier=%s states=%d behaviours=%d random=%d records=%d traces_ok=%d drift=%d wall=%.0fs"
            % (prop, tier, cov["states"], cov["behaviours_replayed"], cov["random_programs"], cov["records_validated"],
               cov["traces_validated_against_impl"], cov["drift"], time.time() - t0))
    return rc

def replay_file(path):
    """Re-run one saved program on the current tree and report what the monitors say."""
    build_harness()
    body = json.load(open(path))
    wd = os.path.join(WORK, "replay")
    shutil.rmtree(wd, ignore_errors=True)
    os.makedirs(wd)
    if body["program"].get("kind") == "suite":
        sr = suite.run(REPO, os.path.join(HARNESS, "target", "suite"), wd)
        hits = [v for v in sr["violations"] if v["id"] == body["program"]["test"]]
        for v in hits:
            log("MONITOR property=%s why=%s test=%s at record %d" % (v["p"], v["why"], v["id"], v["l"]))
        return 1 if [v for v in hits if v["p"] == body.get("property", v["p"])] else 0
    p = dict(body["program"])
    p["id"] = body.get("id", "replay")
    obs = harness_replay([p], wd, "replay")
    viol, _ = trace_props(obs, wd, "replay", 300)
    for o in obs[0]["stream"]:
        log(json.dumps(o))
    for v in viol:
        log("MONITOR property=%s why=%s at record %d" % (v["p"], v["why"], v["l"] - 1))
    return 1 if [v for v in viol if v["p"] == body.get("property", v["p"])] else 0
