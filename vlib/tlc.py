"""Running TLC: configuration files from dictionaries, result parsing."""
import os, re, subprocess, time, shutil, json

SPEC = os.path.join(os.path.dirname(os.path.dirname(os.path.abspath(__file__))), "spec")

def tla_value(v):
    if isinstance(v, bool):
        return "TRUE" if v else "FALSE"
    if isinstance(v, int):
        return str(v)
    if isinstance(v, str):
        return '"%s"' % v
    if isinstance(v, (set, frozenset)):
        return "{" + ", ".join(sorted(tla_value(x) for x in v)) + "}"
    raise ValueError(v)

def write_cfg(path, spec, constants, invariants=(), constraints=(), postconditions=(), view=None, subst=None, properties=()):
    """constants: name -> python value; subst: name -> operator name (written as  name <- op)."""
    lines = ["SPECIFICATION %s" % spec, "CONSTANTS"]
    for k, v in constants.items():
        lines.append("  %s = %s" % (k, tla_value(v)))
    subst = dict(subst or {})
    if "NSys" in constants:
        subst.setdefault("AppRegs", "App_None")
    for k, v in subst.items():
        lines.append("  %s <- %s" % (k, v))
    for i in invariants:
        lines.append("INVARIANT %s" % i)
    for pr in properties:
        lines.append("PROPERTY %s" % pr)
    for c in constraints:
        lines.append("CONSTRAINT %s" % c)
    for p in postconditions:
        lines.append("POSTCONDITION %s" % p)
    if view:
        lines.append("VIEW %s" % view)
    lines.append("CHECK_DEADLOCK FALSE")
    with open(path, "w") as f:
        f.write("\n".join(lines) + "\n")

class TlcResult:
    def __init__(self):
        self.rc = None
        self.timed_out = False
        self.generated = 0
        self.distinct = 0
        self.depth = 0
        self.violated = None      # name of a violated invariant
        self.error = None         # evaluation / parse error text
        self.stdout = ""
        self.wall = 0.0
        self.complete = False
        self.cached = False

CACHE = os.path.join(os.path.dirname(SPEC), "work", "tlc_cache")

def _cache_key(module, cfg, extra):
    """Model-side TLC runs (model check, enumeration, simulation with a fixed seed) are a pure function of the specification files,
    the configuration and the arguments: they do not read /repo. Their output is kept and reused while none of these change."""
    import hashlib, glob
    h = hashlib.sha1()
    deps = {"MC.tla": ["MC", "Cobweb", "Props"], "Gen.tla": ["Gen", "MC", "Cobweb", "Props"], "AutoDespawn.tla": ["AutoDespawn"],
            "ADGen.tla": ["ADGen", "AutoDespawn"], "Syscall.tla": ["Syscall"], "SCGen.tla": ["SCGen", "Syscall"]}
    files = [os.path.join(SPEC, m + ".tla") for m in deps[module]] if module in deps else sorted(glob.glob(os.path.join(SPEC, "*.tla")))
    for f in files:
        h.update(f.encode()); h.update(open(f, "rb").read())
    h.update(open(cfg, "rb").read())
    h.update(repr((module, list(extra))).encode())
    return h.hexdigest()

def run(module, cfg, workdir, workers=8, timeout=600, env=None, extra=(), heap=None, keep_stdout=True, cache=False):
    os.makedirs(workdir, exist_ok=True)
    key = _cache_key(module, cfg, extra) if cache and not os.environ.get("VERIF_NO_TLC_CACHE") else None
    if key and os.path.exists(os.path.join(CACHE, key, "done")):
        res = _parse(open(os.path.join(CACHE, key, "tlc.out"), errors="replace").read(), TlcResult(), keep_stdout)
        res.rc, res.cached = 0, True
        res.timed_out = not res.complete and res.violated is None and "-simulate" not in extra
        res.wall = float(open(os.path.join(CACHE, key, "done")).read() or 0)
        return res
    meta = os.path.join(workdir, "meta")
    shutil.rmtree(meta, ignore_errors=True)
    cmd = ["tlc", "-workers", str(workers), "-metadir", meta, "-cleanup", "-noGenerateSpecTE", "-config", cfg] + list(extra) + [module]
    e = dict(os.environ)
    e["JAVA_TOOL_OPTIONS"] = "-Xss1g" + (" -Xmx%s" % heap if heap else "")
    if env:
        e.update(env)
    t0 = time.time()
    res = TlcResult()
    outpath = os.path.join(workdir, "tlc.out")
    with open(outpath, "w") as out:
        try:
            p = subprocess.run(["timeout", "-k", "10", str(timeout)] + cmd, cwd=SPEC, env=e, stdout=out, stderr=subprocess.STDOUT)
            res.rc = p.returncode
        except Exception as ex:          # pragma: no cover
            res.rc = -1
            res.error = str(ex)
    res.wall = time.time() - t0
    res.timed_out = res.rc in (124, 137)
    text = open(outpath, errors="replace").read()
    _parse(text, res, keep_stdout)
    shutil.rmtree(meta, ignore_errors=True)
    # a run stopped by a long (thorough-tier) time limit is kept too: it explored what it reports, and says so (complete = False)
    if key and not res.error and (res.complete or "-simulate" in extra or res.violated or (res.timed_out and timeout >= 500 and res.distinct > 0)):
        d = os.path.join(CACHE, key)
        os.makedirs(d, exist_ok=True)
        shutil.copyfile(outpath, os.path.join(d, "tlc.out"))
        open(os.path.join(d, "done"), "w").write("%.1f" % res.wall)
    return res

def _parse(text, res, keep_stdout):
    if keep_stdout:
        res.stdout = text
    for mm in re.finditer(r"(\d[\d,]*) states generated.*?(\d[\d,]*) distinct states found", text):
        res.generated = int(mm.group(1).replace(",", ""))
        res.distinct = int(mm.group(2).replace(",", ""))
    mm = re.search(r"depth of the complete state graph search is (\d+)", text)
    if mm:
        res.depth = int(mm.group(1))
    res.complete = "Model checking completed. No error has been found." in text
    mm = re.search(r"Invariant (\w+) is violated", text)
    if mm:
        res.violated = mm.group(1)
    if res.violated is None and not res.complete and not res.timed_out:
        mm = re.search(r"(Error: .*(?:\n.*){0,12})", text)
        if mm and "Simulation" not in text[:0]:
            res.error = mm.group(1)
    return res

def counterexample_hist(text):
    """Not used for verdicts: the last state's history is printed by Gen's invariant instead."""
    return None
