"""Monitor non-vacuity: every model mutant / re-introduced defect must make TLC report the expected Inv_Cxx false.

`./check selftest` is not part of any property's command; it documents that the monitors of Props.tla are able to fail
inside the model (the seeded source changes of /verif/seeded show the same on the real crate)."""
import json, os, shutil, time
from . import tlc, configs
from .engine import WORK, ROOT, log

C = configs.C
# (name, kind, group whose subst/init to use, constants, expected invariants (any of them))
CASES = [
    ("gc_skip", "Mutants", "reg", C(NSys=3, NOnce=1, OpNames={"bc", "reg", "revoke", "once"}, Modes={"cleanup", "revokable"}, MaxOps=2, Budget=3, MaxSteps=3, StepKinds={"ops", "gc"}), ["Inv_C07"]),
    ("revoke_neighbour", "Mutants", "reg", C(NSys=3, OpNames={"bc", "revoke"}, MaxOps=2, Budget=3, MaxSteps=3), ["Inv_C06", "Inv_C01", "Inv_C07"]),
    ("count_plus_one", "Mutants", "ev", C(NSys=3, OpNames={"bc", "eev"}, MaxOps=2, Budget=2, MaxSteps=2), ["Inv_C05", "Inv_C11"]),
    ("dispatch_skip_last", "Mutants", "ev", C(NSys=3, OpNames={"bc", "eev"}, MaxOps=2, Budget=2, MaxSteps=2), ["Inv_C01"]),
    ("stale_er", "Mutants", "ev", C(NSys=3, OpNames={"eev", "probe", "run"}, MaxOps=2, Budget=3, MaxSteps=3), ["Inv_C04", "Inv_C11", "Inv_C03"]),
    ("abort_no_setup", "Mutants", "ev", C(NSys=3, OpNames={"bc", "sysev", "despsys"}, MaxOps=3, Budget=4, MaxSteps=2), ["Inv_C05", "Inv_C11", "Inv_C18"]),
    ("abort_no_cleanup", "Mutants", "ev", C(NSys=3, OpNames={"bc", "sysev", "despsys"}, MaxOps=3, Budget=4, MaxSteps=2), ["Inv_C05", "Inv_C11"]),
    ("postpone_off_by_one", "Mutants", "run", C(NSys=2, OpNames={"run", "sysev"}, MaxOps=2, Budget=3, MaxSteps=2), ["Inv_C02"]),
    ("once_no_revoke", "Mutants", "reg", C(NSys=3, NOnce=1, OpNames={"bc", "once"}, MaxOps=2, Budget=3, MaxSteps=3, StepKinds={"ops", "gc"}), ["Inv_C15", "Inv_C07", "Inv_C01"]),
    ("replay_newest", "Mutants", "run", C(NSys=2, OpNames={"run", "sysev"}, MaxOps=3, Budget=4, MaxSteps=2), ["Inv_C12", "Inv_C09"]),
    ("replay_once", "Mutants", "run", C(NSys=2, OpNames={"run", "sysev"}, MaxOps=3, Budget=4, MaxSteps=2), ["Inv_C02", "Inv_C09", "Inv_C11"]),
    # "no_discard" (root does not discard leftovers) is an EQUIVALENT mutant of the model: every deferred command is replayed by
    # the frame of its target, so nothing is ever left at the root; it is kept in Cobweb.tla but not listed here
    ("no_counter_reset", "Mutants", "run", C(NSys=2, OpNames={"run"}, MaxOps=2, Budget=3, MaxSteps=3), ["Inv_C11", "Inv_C02"]),
    ("local_reset", "Mutants", "run", C(NSys=2, OpNames={"run"}, MaxOps=2, Budget=3, MaxSteps=2), ["Inv_C13"]),
    ("cleanup_after_commands", "Mutants", "ev", C(NSys=3, OpNames={"bc", "probe"}, MaxOps=2, Budget=3, MaxSteps=2), ["Inv_C04", "Inv_C05"]),
    ("set_always", "Mutants", "comp", C(NSys=2, NEnt=2, NVal=2, OpNames={"set", "resset"}, MaxOps=2, Budget=2, MaxSteps=2), ["Inv_C14"]),
    ("take_twice_ok", "Mutants", "run", C(NSys=2, OpNames={"sysev"}, MaxOps=2, Budget=2, MaxSteps=2, Features={"take2"}), ["Inv_C04"]),
    ("poll_skip_rem", "Mutants", "comp", C(NSys=2, NEnt=2, NVal=2, OpNames={"rm", "desp", "trig"}, MaxOps=2, Budget=2, MaxSteps=3, StepKinds={"ops", "poll"}), ["Inv_C08"]),
    ("ew_cleanup_inverted", "Mutants", "world", C(NSys=1, NW=1, NER=1, NEnt=2, NVal=2, OpNames={"eadd", "erem", "mut"}, MaxOps=2, Budget=3, MaxSteps=3), ["Inv_C16"]),
    ("ew_wrong_local", "Mutants", "world", C(NSys=1, NW=1, NER=1, NEnt=2, NVal=2, OpNames={"eadd", "mut"}, MaxOps=2, Budget=2, MaxSteps=3), ["Inv_C16"]),
    ("abort_poll_first", "Mutants", "mix", C(NSys=2, NEnt=2, OpNames={"sysevsig", "despsys"}, MaxOps=2, Budget=3, MaxSteps=3), ["Inv_C08", "Inv_C11"]),
    ("gc_flat", "Mutants", "hier", C(NSys=2, NEnt=3, Hier=3, OpNames={"sysevsig"}, MaxOps=1, Budget=2, MaxSteps=3, StepKinds={"ops", "clear"}), ["Inv_C08", "Inv_C18"]),
    ("poll_stop_unwatched", "Mutants", "tabdesp", C(NSys=3, NEnt=2, OpNames={"revoke", "desp"}, MaxOps=3, BodyOps=0, Budget=3, MaxSteps=3, FinalStep="clear"), ["Inv_C08"]),
    ("replay_skip_dead", "Mutants", "run", C(NSys=2, OpNames={"sysev", "despsys"}, MaxOps=2, Budget=3, MaxSteps=2), ["Inv_C18", "Inv_C02", "Inv_C05"]),
    ("swap_remove", "Defects", "run", C(NSys=1, OpNames={"sysev"}, MaxOps=3, Budget=4, MaxSteps=2), ["Inv_C12", "Inv_C03"]),
    ("nested_first", "Defects", "run", C(NSys=2, OpNames={"run", "sysev"}, MaxOps=3, Budget=5, MaxSteps=1), ["Inv_C12", "Inv_C03"]),
    ("insert_dead", "Defects", "comp", C(NSys=2, NEnt=2, NVal=1, OpNames={"ins", "desp"}, MaxOps=2, Budget=2, MaxSteps=2), ["Inv_C14", "Inv_C18", "Inv_C01"]),
]

ALL_INVS = ["Inv_C01", "Inv_C02", "Inv_C03", "Inv_C04", "Inv_C05", "Inv_C06", "Inv_C07", "Inv_C08", "Inv_C09", "Inv_C11", "Inv_C12",
            "Inv_C13", "Inv_C14", "Inv_C15", "Inv_C16", "Inv_C18"]

def run(only=None):
    wd = os.path.join(WORK, "selftest")
    shutil.rmtree(wd, ignore_errors=True)
    os.makedirs(wd)
    results = []
    rc = 0
    for name, kind, gname, consts, expect in CASES:
        if only and name not in only:
            continue
        group = configs.GROUPS.get(gname) or configs.ENUMS[gname]
        consts = dict(consts)
        consts[kind] = {name}
        cfg = os.path.join(wd, name + ".cfg")
        # check the expected invariants only: the first one TLC finds false is reported
        tlc.write_cfg(cfg, "Spec", consts, invariants=expect, subst=group["subst"])
        res = tlc.run("MC.tla", cfg, os.path.join(wd, name), workers=12, timeout=600)
        killed = res.violated in expect
        # the same configuration without the mutant must be clean
        consts0 = dict(consts)
        consts0[kind] = set()
        tlc.write_cfg(cfg, "Spec", consts0, invariants=expect, subst=group["subst"])
        base = tlc.run("MC.tla", cfg, os.path.join(wd, name + "_base"), workers=12, timeout=600)
        ok = killed and base.complete and not base.violated
        results.append(dict(mutant=name, kind=kind, group=gname, expected=expect, violated=res.violated, states_to_violation=res.distinct,
                            baseline_clean=bool(base.complete and not base.violated), baseline_states=base.distinct, ok=ok))
        log("%-24s %-8s violated=%-8s baseline_clean=%s %s" % (name, kind, res.violated, base.complete and not base.violated, "OK" if ok else "MISSED"))
        if not ok:
            rc = 1
    os.makedirs(os.path.join(ROOT, "selftest"), exist_ok=True)
    path = os.path.join(ROOT, "selftest", "model_mutants.json")
    merged = {}
    if only and os.path.exists(path):
        merged = {r["mutant"]: r for r in json.load(open(path)).get("results", [])}
    for r in results:
        merged[r["mutant"]] = r
    json.dump(dict(when=time.strftime("%Y-%m-%d %H:%M:%S"), results=list(merged.values())), open(path, "w"), indent=1)
    return rc
