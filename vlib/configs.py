"""Configurations: model bounds and alphabets per group, groups per property.

A *group* is one alphabet of Cobweb.tla with
  mc   : constants of the exhaustive model check (Cobweb x Props), quick and thorough bounds
  gen  : constants of behaviour generation by TLC simulation (programs + predicted streams replayed on the crate)
  rnd  : generator configuration of the harness-side random programs (same alphabet), validated by TraceProps/TraceConf
"""

def C(**kw):
    base = dict(NSys=2, NOnce=0, NW=0, NER=0, NEnt=1, Hier=0, NTy=1, NVal=1, OpNames=set(), Modes=set(), MaxOps=2, Budget=3, MaxSteps=2,
                StepKinds={"ops"}, Features=set(), Excl=set(), RcSys=set(), Defects=set(), Mutants=set(), Scripted=False, FinalStep="")
    base.update(kw)
    if "BodyOps" not in kw:
        base["BodyOps"] = base["MaxOps"]
    return base

ALLMODES = {"persistent", "cleanup", "revokable"}

GROUPS = {
    # recursion of system commands and system events: C02 C09 C11 C12 C13
    "run": dict(
        subst=dict(Bundles="B_One", InitOps="NoOps"),
        mc_quick=C(NSys=2, OpNames={"run", "sysev"}, MaxOps=3, Budget=4, MaxSteps=2, Features={"notake"}),
        mc_thorough=C(NSys=3, RcSys={2}, OpNames={"run", "sysev", "despsys", "rcdrop"}, MaxOps=3, Budget=6, MaxSteps=2, Features={"err", "notake"}),
        gen=C(NSys=3, Excl={3}, RcSys={2}, OpNames={"run", "sysev", "xsysev", "irun", "isysev", "despsys", "rcdrop", "probe"}, MaxOps=3, Budget=9, MaxSteps=3, Features={"err", "notake", "take2"},
              StepKinds={"ops", "direct"}),
        rnd=dict(cfg=dict(kinds=["plain", "plain", "excl"], nonce=0, nent=1, rcsys=[2]), alphabet=["run", "sysev", "xsysev", "irun", "isysev", "despsys", "rcdrop", "probe"], p_direct=15,
                 trigs=["bc"], max_ops=4, budget=12, steps=3, ntypes=1, p_gcpoll=10, init=[]),
    ),
    # events with listeners of all event kinds: C01 C03 C04 C05 C12
    "ev": dict(
        subst=dict(Bundles="B_One", InitOps="Init_ListenRc"),
        mc_quick=C(NSys=3, OpNames={"bc", "eev", "sysev", "probe", "run"}, MaxOps=3, Budget=3, MaxSteps=2, Features={"notake"}),
        mc_thorough=C(NSys=3, OpNames={"bc", "eev", "sysev", "res", "run", "probe"}, MaxOps=2, Budget=5, MaxSteps=2, Features={"notake"}),
        gen=C(NSys=3, Excl={3}, NEnt=2, OpNames={"bc", "eev", "sysev", "xbc", "xeev", "xsysev", "irun", "isysev", "ibc", "ieev", "res", "run", "probe", "despsys", "revoke"}, MaxOps=3, Budget=9, MaxSteps=3,
              Features={"err", "notake", "take2"}, StepKinds={"ops", "gc", "direct"}),
        rnd=dict(cfg=dict(kinds=["plain", "plain", "excl"], nonce=0, nent=2), p_direct=15,
                 alphabet=["bc", "eev", "sysev", "xbc", "xeev", "xsysev", "irun", "isysev", "ibc", "ieev", "res", "run", "probe", "despsys", "revoke"],
                 trigs=["bc"], max_ops=3, budget=12, steps=3, ntypes=2, p_gcpoll=10,
                 init=[["reg", "persistent", 1, [["bc", 1], ["eev", 1, 1], ["bc", 2]], 0], ["reg", "cleanup", 2, [["bc", 1], ["res", 1], ["anyev", 2]], 0],
                       ["reg", "revokable", 3, [["anyev", 1], ["bc", 1], ["eev", 2, 2]], 1]]),
    ),
    # registration, revocation, lifetime, one-off reactors, stale targets: C01 C06 C07 C15 C18
    "reg": dict(
        subst=dict(Bundles="B_Small", InitOps="Init_ListenRc"),
        mc_quick=C(NSys=3, NOnce=1, OpNames={"bc", "reg", "revoke", "once", "despsys"}, Modes={"cleanup", "revokable"}, MaxOps=2, Budget=4, MaxSteps=3,
                   StepKinds={"ops", "gc"}),
        mc_thorough=C(NSys=3, NOnce=1, OpNames={"bc", "eev", "reg", "on", "revoke", "once", "despsys", "desp"}, Modes=ALLMODES, MaxOps=2, Budget=4,
                      MaxSteps=3, StepKinds={"ops", "gc"}),
        gen=C(NSys=3, NOnce=2, NEnt=2, OpNames={"bc", "eev", "res", "reg", "on", "revoke", "once", "despsys", "desp", "run", "sysev"}, Modes=ALLMODES,
              MaxOps=3, Budget=9, MaxSteps=4, StepKinds={"ops", "gc"}, Features={"err"}),
        gen_subst=dict(Bundles="B_Event", InitOps="Init_ListenRc"),
        rnd=dict(cfg=dict(kinds=["plain", "plain", "plain"], nonce=2, nent=2),
                 alphabet=["bc", "eev", "res", "reg", "on", "revoke", "once", "despsys", "desp", "run", "sysev", "probe"],
                 trigs=["bc", "eev", "anyev", "res", "desp"], max_ops=3, budget=12, steps=4, ntypes=2, p_gcpoll=20, p_frame=20,
                 init=[["reg", "persistent", 1, [["bc", 1], ["eev", 1, 1]], 0], ["reg", "cleanup", 2, [["bc", 1], ["res", 1]], 0],
                       ["reg", "revokable", 3, [["anyev", 1], ["bc", 2]], 1]]),
    ),
    # reactive components, removal and despawn polling, accessors: C08 C14 C01 C03 C18
    "comp": dict(
        subst=dict(Bundles="B_Comp", InitOps="Init_Comp"),
        mc_quick=C(NSys=2, NEnt=2, NVal=2, OpNames={"ins", "set", "rm", "desp", "trig", "resset"}, MaxOps=2, Budget=3, MaxSteps=3,
                   StepKinds={"ops", "poll"}, Features={"coarse"}),
        mc_thorough=C(NSys=2, NEnt=2, NVal=2, OpNames={"ins", "mut", "set", "smut", "sset", "rm", "desp", "trig", "noreact"}, MaxOps=2, Budget=4, MaxSteps=3,
                      StepKinds={"ops", "poll", "clear"}),
        gen=C(NSys=3, NEnt=2, NVal=2, OpNames={"ins", "mut", "set", "noreact", "smut", "sset", "sno", "rm", "xrm", "desp", "xdesp", "trig", "reg", "revoke", "run",
                                               "resset", "resmut", "resno", "res", "xres", "sysevsig"},
              Modes=ALLMODES, MaxOps=3, Budget=9, MaxSteps=4, StepKinds={"ops", "poll", "clear", "gc", "frame", "direct"}, Features={"coarse"}),
        rnd=dict(cfg=dict(kinds=["plain", "plain", "plain"], nonce=1, nent=2),
                 alphabet=["ins", "mut", "set", "noreact", "smut", "sset", "sno", "rm", "xrm", "desp", "xdesp", "trig", "reg", "revoke", "run", "resset", "resmut", "resno",
                           "res", "xres", "once", "probe", "sysevsig"],
                 trigs=["ins", "mut", "rem", "eins", "emut", "erem", "desp", "res"], max_ops=3, budget=12, steps=4, ntypes=2, nvals=2, p_gcpoll=30, p_frame=30, p_direct=15,
                 init=[["ins", 1, 1, 1], ["ins", 2, 1, 1], ["reg", "persistent", 1, [["mut", 1], ["rem", 1], ["eins", 2, 1], ["res", 1]], 0],
                       ["reg", "cleanup", 2, [["ins", 1], ["erem", 1, 1], ["desp", 2]], 0]]),
    ),
    # everything mixed: events to a listener of all kinds while components are removed (C03, C08, C18)
    "mix": dict(
        subst=dict(Bundles="B_One", InitOps="Init_All"),
        mc_quick=C(NSys=2, NEnt=2, OpNames={"eev", "rm", "desp", "mut", "sysevsig"}, MaxOps=2, Budget=3, MaxSteps=3, StepKinds={"ops", "frame"}),
        mc_thorough=C(NSys=2, NEnt=2, OpNames={"eev", "bc", "rm", "desp", "mut", "ins", "run", "sysevsig"}, MaxOps=2, Budget=4, MaxSteps=3, StepKinds={"ops", "poll", "frame"}),
        gen=C(NSys=3, NEnt=2, NVal=2, OpNames={"eev", "bc", "xeev", "xbc", "rm", "desp", "xdesp", "mut", "ins", "run", "sysev", "sysevsig", "despsys", "probe"}, MaxOps=3, Budget=9, MaxSteps=4,
              StepKinds={"ops", "poll", "gc", "frame", "direct"}, Features={"err", "notake"}),
        rnd=dict(cfg=dict(kinds=["plain", "plain", "plain"], nonce=0, nent=2),
                 alphabet=["eev", "bc", "xeev", "xbc", "rm", "desp", "xdesp", "mut", "ins", "run", "sysev", "sysevsig", "despsys", "probe", "set", "trig"],
                 trigs=["bc"], max_ops=3, budget=12, steps=4, ntypes=2, nvals=2, p_gcpoll=25, p_frame=30, p_direct=15,
                 init=[["ins", 1, 1, 1], ["ins", 2, 1, 1], ["ins", 1, 2, 1],
                       ["reg", "persistent", 1, [["bc", 1], ["eev", 1, 1], ["mut", 1], ["rem", 1]], 0],
                       ["reg", "persistent", 2, [["anyev", 1], ["ins", 1], ["erem", 1, 1], ["desp", 2]], 0],
                       ["reg", "cleanup", 3, [["rem", 2], ["emut", 2, 1], ["desp", 1], ["bc", 2]], 0]]),
    ),
}

GROUPS["world"] = dict(
    subst=dict(Bundles="B_World", InitOps="Init_World"),
    mc_quick=C(NSys=1, NW=1, NER=1, NEnt=2, NVal=2, OpNames={"wadd", "wrem", "bc", "eadd", "erem", "mut", "eev", "setlocal", "rm"}, MaxOps=2, Budget=3,
               MaxSteps=3, StepKinds={"ops", "poll"}),
    mc_thorough=C(NSys=1, NW=2, NER=1, NEnt=2, NVal=2, OpNames={"wadd", "wrem", "wrun", "bc", "eadd", "erem", "mut", "eev", "setlocal", "desp"},
                  MaxOps=2, Budget=4, MaxSteps=3, StepKinds={"ops", "gc"}),
    gen=C(NSys=2, NW=2, NER=1, NEnt=2, NVal=2, OpNames={"wadd", "wrem", "wrun", "bc", "res", "eadd", "erem", "mut", "eev", "setlocal", "desp", "run", "ins", "rm"},
          MaxOps=3, Budget=10, MaxSteps=4, StepKinds={"ops", "gc", "poll"}),
    rnd=dict(cfg=dict(kinds=["plain", "plain"], nonce=0, nent=2, nworld=2, neworld=1),
             alphabet=["wadd", "wrem", "wrun", "bc", "res", "eadd", "erem", "mut", "eev", "setlocal", "desp", "run", "ins", "rm", "probe"],
             trigs=["bc", "res", "anyev", "mut", "eev", "ins"], max_ops=3, budget=14, steps=4, ntypes=1, nvals=2, p_gcpoll=15,
             init=[["ins", 1, 1, 1], ["ins", 2, 1, 1]]),
)

# many deliveries of mixed kinds from one run to one (busy) listener of everything: C12 C03 C09
GROUPS["burst"] = dict(
    subst=dict(Bundles="B_One", InitOps="Init_Burst"),
    mc_quick=C(NSys=1, NEnt=2, OpNames={"bc", "eev", "mut", "sysev", "run"}, MaxOps=3, Budget=4, MaxSteps=2, Features={"notake"}),
    mc_thorough=C(NSys=2, NEnt=2, OpNames={"bc", "eev", "mut", "sysev", "run", "trig", "res"}, MaxOps=4, Budget=5, MaxSteps=2, Features={"notake"}),
    gen=C(NSys=2, NEnt=2, NVal=2, OpNames={"bc", "eev", "mut", "sysev", "run", "trig", "res", "ins", "probe"}, MaxOps=4, Budget=10, MaxSteps=3,
          Features={"notake", "err"}),
    rnd=dict(cfg=dict(kinds=["plain", "plain"], nonce=0, nent=2), alphabet=["bc", "eev", "mut", "sysev", "run", "trig", "res", "ins", "probe"],
             trigs=["bc"], max_ops=4, budget=12, steps=3, ntypes=1, nvals=2, p_gcpoll=5, p_notake=15,
             init=[["ins", 1, 1, 1], ["ins", 2, 1, 1], ["reg", "persistent", 1, [["bc", 1], ["eev", 1, 1], ["mut", 1], ["ins", 1], ["res", 1]], 0]]),
)
# many entity reactions (insertion / mutation / entity event, different sources) from one run to one busy listener: C12 C03
GROUPS["erburst"] = dict(
    subst=dict(Bundles="B_One", InitOps="Init_ErBurst"),
    mc_quick=C(NSys=2, NEnt=2, OpNames={"eev", "mut", "ins"}, MaxOps=4, Budget=4, MaxSteps=2),
    mc_thorough=C(NSys=2, NEnt=2, NTy=2, OpNames={"eev", "mut", "ins", "trig", "run"}, MaxOps=4, Budget=5, MaxSteps=2),
    gen=C(NSys=2, NEnt=2, NTy=2, NVal=2, OpNames={"eev", "mut", "ins", "trig", "run", "rm"}, MaxOps=5, Budget=10, MaxSteps=3),
    rnd=dict(cfg=dict(kinds=["plain", "plain"], nonce=0, nent=2), alphabet=["eev", "mut", "ins", "trig", "run", "rm", "eev", "mut", "trig"],
             trigs=["bc"], max_ops=5, budget=14, steps=3, ntypes=2, nvals=2, p_gcpoll=5,
             init=[["ins", 1, 1, 1], ["ins", 2, 1, 1], ["ins", 1, 2, 1],
                   ["reg", "persistent", 1, [["anyev", 1], ["mut", 1], ["ins", 1], ["mut", 2]], 0],
                   ["reg", "persistent", 2, [["eev", 1, 1], ["emut", 2, 1], ["rem", 1]], 0]]),
)
# entity hierarchy and direct world access: recursive despawn (by command, by direct access, by the garbage collector),
# plain despawn of parents and children, removal by direct access, between trees and inside them: C08 C18 C07
GROUPS["hier"] = dict(
    subst=dict(Bundles="B_Comp", InitOps="Init_Hier"),
    mc_quick=C(NSys=2, NEnt=3, Hier=3, OpNames={"desprec", "xdesp", "xrm", "desp", "sysevsig"}, MaxOps=2, Budget=2, MaxSteps=3,
               StepKinds={"ops", "direct", "clear"}),
    mc_thorough=C(NSys=2, NEnt=3, Hier=3, OpNames={"desprec", "xdesp", "xdesprec", "xrm", "desp", "sysevsig"}, MaxOps=2, BodyOps=1, Budget=3, MaxSteps=3,
                  StepKinds={"ops", "direct", "clear"}),
    gen=C(NSys=3, NEnt=3, Hier=3, NVal=2, OpNames={"desprec", "xdesp", "xdesprec", "xrm", "desp", "rm", "sysevsig", "ins", "run", "reg", "revoke", "mut"},
          Modes=ALLMODES, MaxOps=3, Budget=9, MaxSteps=4, StepKinds={"ops", "direct", "clear", "poll", "gc", "frame"}),
    rnd=dict(cfg=dict(kinds=["plain", "plain", "excl"], nonce=1, nent=3, hier=3),
             alphabet=["desprec", "xdesp", "xdesprec", "xrm", "desp", "rm", "sysevsig", "ins", "run", "reg", "revoke", "mut", "once", "probe", "sysev"],
             trigs=["rem", "erem", "desp", "ins", "emut"], max_ops=3, budget=12, steps=5, ntypes=2, nvals=2, p_gcpoll=25, p_frame=25, p_direct=30,
             init=[["ins", 1, 1, 1], ["ins", 2, 1, 1], ["ins", 3, 1, 1], ["ins", 2, 2, 1],
                   ["reg", "persistent", 1, [["rem", 1], ["erem", 2, 1], ["desp", 3]], 0],
                   ["reg", "cleanup", 2, [["desp", 1], ["desp", 2], ["erem", 3, 1], ["rem", 2]], 0]]),
)
# reactors added with App::add_reactor (four closures of ONE type, registered at start-up) next to ordinary systems: C13 C01 C07
APP3 = [[["bc", 1]], [["bc", 1], ["eev", 1, 1]], [["res", 1], ["anyev", 1]], [["eev", 2, 1]]]
GROUPS["app"] = dict(
    subst=dict(Bundles="B_One", InitOps="NoOps", AppRegs="App_Four"),
    mc_quick=C(NSys=1, NEnt=2, OpNames={"bc", "eev", "res", "run", "desp"}, MaxOps=2, Budget=3, MaxSteps=3, StepKinds={"ops", "gc"}),
    mc_thorough=C(NSys=2, NEnt=2, OpNames={"bc", "eev", "res", "run", "sysev", "desp"}, MaxOps=2, Budget=4, MaxSteps=3, StepKinds={"ops", "gc"}),
    gen=C(NSys=2, NEnt=2, OpNames={"bc", "eev", "res", "run", "sysev", "reg", "probe", "desp"}, Modes={"persistent"}, MaxOps=3, Budget=8, MaxSteps=4,
          StepKinds={"ops", "gc", "clear"}),
    rnd=dict(cfg=dict(kinds=["plain", "plain"], nonce=0, nent=2, app=APP3), alphabet=["bc", "eev", "res", "run", "sysev", "reg", "probe", "desp"],
             trigs=["bc", "eev", "res", "anyev"], modes=["persistent"], max_ops=3, budget=10, steps=4, ntypes=1, p_gcpoll=25, init=[]),
)
# the entity world reactor triggering itself for several other entities in one run (postponed, replayed in order): C16 C12
GROUPS["ewburst"] = dict(
    subst=dict(Bundles="B_One", InitOps="Init_EwBurst"),
    mc_quick=C(NSys=1, NER=1, NEnt=3, NVal=1, OpNames={"mut", "eev"}, MaxOps=3, Budget=4, MaxSteps=2),
    mc_thorough=C(NSys=1, NER=1, NEnt=3, NVal=2, OpNames={"mut", "eev", "trig", "setlocal", "erem"}, MaxOps=3, Budget=5, MaxSteps=2),
    gen=C(NSys=1, NER=1, NEnt=3, NVal=2, OpNames={"mut", "eev", "trig", "setlocal", "erem", "eadd", "desp"}, MaxOps=4, Budget=10, MaxSteps=3),
    rnd=dict(cfg=dict(kinds=["plain"], nonce=0, nent=3, neworld=1), alphabet=["mut", "eev", "trig", "setlocal", "erem", "eadd", "mut", "eev", "probe"],
             trigs=["bc"], max_ops=4, budget=14, steps=3, ntypes=1, nvals=2, p_gcpoll=5,
             init=[["ins", 1, 1, 1], ["ins", 2, 1, 1], ["ins", 3, 1, 1], ["eadd", 1, 1, 1], ["eadd", 1, 2, 2], ["eadd", 1, 3, 1]]),
)
# long trees (dozens of commands in one flush): random programs only, validated by TraceProps and TraceConf
GROUPS["long"] = dict(
    rnd=dict(cfg=dict(kinds=["plain", "plain", "plain"], nonce=0, nent=1), alphabet=["run", "sysev", "bc", "eev", "probe"],
             trigs=["bc"], max_ops=4, budget=70, steps=2, ntypes=1, p_gcpoll=0, rnd_scale=0.2,
             init=[["reg", "persistent", 1, [["bc", 1], ["eev", 1, 1]], 0], ["reg", "persistent", 2, [["bc", 1], ["anyev", 1]], 0]]),
)

# exhaustive enumeration ON THE REAL CRATE: every driver sequence of up to Budget table operations (bodies issue nothing),
# followed by a frame end (GC + poll + clear_trackers); every program is replayed, compared and judged
ENUMS = {
    "tabcomp": dict(subst=dict(Bundles="B_Comp1", InitOps="Init_Ins"),
                    consts=C(NSys=2, NOnce=2, NEnt=1, OpNames={"reg", "revoke", "once", "ins", "rm"}, Modes={"persistent", "revokable"},
                             MaxOps=3, BodyOps=0, Budget=3, MaxSteps=3, FinalStep="clear")),
    "tabev": dict(subst=dict(Bundles="B_EvTab", InitOps="NoOps"),
                  consts=C(NSys=2, NOnce=1, NEnt=1, OpNames={"reg", "revoke", "once", "bc", "eev", "desp"}, Modes={"cleanup", "revokable"},
                           MaxOps=3, BodyOps=0, Budget=3, MaxSteps=2, FinalStep="clear")),
    "tabmix": dict(subst=dict(Bundles="B_Mixed", InitOps="Init_Ins"),
                   consts=C(NSys=2, NOnce=1, NEnt=1, OpNames={"reg", "on", "revoke", "once", "desp", "rm", "res", "despsys"}, Modes={"cleanup", "revokable"},
                            MaxOps=3, BodyOps=0, Budget=3, MaxSteps=3, FinalStep="clear")),
}
# removal / despawn polling after table edits: entity-scoped removal and despawn registrations are in place (init step), the
# enumerated ops edit type-wide tables next to them, revoke, remove and despawn
ENUMS["tabrem"] = dict(subst=dict(Bundles="B_Comp1", InitOps="Init_TabRem"),
                       consts=C(NSys=3, NOnce=1, NEnt=2, OpNames={"reg", "revoke", "once", "rm", "desp", "ins"}, Modes={"revokable"},
                                MaxOps=3, BodyOps=0, Budget=3, MaxSteps=3, FinalStep="clear"))
ENUMS["tabdesp"] = dict(subst=dict(Bundles="B_Desp", InitOps="Init_TabDesp"),
                        consts=C(NSys=3, NOnce=1, NEnt=2, OpNames={"revoke", "desp", "once", "reg"}, Modes={"revokable"},
                                 MaxOps=3, BodyOps=0, Budget=3, MaxSteps=3, FinalStep="clear"))
ENUMS["tabworld"] = dict(subst=dict(Bundles="B_World1", InitOps="Init_Ins"),
                         consts=C(NSys=1, NW=1, NER=1, NEnt=1, NVal=2, OpNames={"eadd", "erem", "wadd", "wrem", "mut", "eev", "bc", "rm"},
                                  MaxOps=3, BodyOps=0, Budget=3, MaxSteps=3, FinalStep="clear"))
# every tree of plain commands and system events over two systems with up to five ops (bodies up to three): all shapes of
# self- and mutual recursion with several deliveries pending for two busy systems at once
ENUMS["treesys"] = dict(subst=dict(Bundles="B_One", InitOps="NoOps"), budget=dict(quick=5, thorough=6),
                        consts=C(NSys=2, OpNames={"run", "sysev"}, MaxOps=1, BodyOps=3, Budget=5, MaxSteps=1))
# every tree of broadcasts / entity events / manual runs / probes over two listeners (bodies up to two ops, four ops in all)
ENUMS["treeev"] = dict(subst=dict(Bundles="B_One", InitOps="Init_Listen"), budget=dict(quick=4, thorough=5),
                       consts=C(NSys=2, NEnt=1, OpNames={"bc", "eev", "run", "probe"}, MaxOps=1, BodyOps=2, Budget=4, MaxSteps=2))
# every tree over reactive components: mutate / remove / despawn / insert by the driver and by the reactors they trigger, then a frame end
ENUMS["treecomp"] = dict(subst=dict(Bundles="B_One", InitOps="Init_Comp"), budget=dict(quick=3, thorough=4),
                         consts=C(NSys=2, NEnt=2, NVal=1, OpNames={"mut", "rm", "desp", "ins"}, MaxOps=2, BodyOps=2, Budget=3, MaxSteps=3, FinalStep="clear"))
# an app whose ONLY reactor is an entity-scoped removal reactor (no type-wide table entry, no despawn reactor): removals by command and
# by direct access, then a frame end - the scheduled poll must still happen
ENUMS["tabonly"] = dict(subst=dict(Bundles="B_One", InitOps="Init_OnlyErem"),
                        consts=C(NSys=1, NEnt=1, OpNames={"rm", "xrm", "desp", "ins"}, MaxOps=3, BodyOps=0, Budget=3, MaxSteps=3,
                                 StepKinds={"ops", "direct"}, FinalStep="clear"))
PROP_ENUMS = {
    "C01": ["tabcomp", "tabev", "treeev"], "C06": ["tabcomp", "tabev", "tabrem", "tabworld", "tabdesp"], "C07": ["tabev", "tabmix", "tabcomp"], "C15": ["tabev", "tabcomp", "tabdesp"],
    "C11": ["tabdesp", "treeev"], "C12": ["treesys"], "C02": ["treesys"], "C09": ["treesys"], "C03": ["treeev"], "C04": ["treeev"], "C05": ["treeev"],
    "C16": ["tabworld"], "C18": ["tabmix", "treecomp"], "C08": ["tabmix", "tabrem", "tabdesp", "treecomp", "tabonly"], "C14": ["treecomp"], "C13": ["treeev"],
}

# which groups decide which property; the first group is the property's "home"
PROP_GROUPS = {
    "C01": ["reg", "ev", "comp", "app"],
    "C02": ["run", "ev", "long", "mix"],
    "C03": ["ev", "mix", "burst", "erburst"],
    "C04": ["ev", "run"],
    "C05": ["ev", "reg", "mix"],
    "C06": ["reg", "comp", "world"],
    "C07": ["reg", "comp", "hier", "app"],
    "C08": ["comp", "mix", "hier"],
    "C09": ["run", "ev", "burst", "mix"],
    "C11": ["run", "reg", "mix"],
    "C12": ["run", "burst", "ev", "erburst"],
    "C13": ["run", "reg", "long", "app"],
    "C14": ["comp"],
    "C15": ["reg"],
    "C16": ["world", "ewburst"],
    "C18": ["reg", "mix", "hier", "world"],
}

# sizes per tier: simulated behaviours per group, random programs per group, TLC time limits (s)
TIERS = {
    "quick": dict(mc="mc_quick", mc_timeout=240, sim_num=1200, sim_depth=600, sim_timeout=120, rnd_n=400, tp_timeout=300, tc_timeout=300,
                  enum_budget=3, enum_timeout=300),
    "thorough": dict(mc="mc_thorough", mc_timeout=600, sim_num=10000, sim_depth=900, sim_timeout=900, rnd_n=4000, tp_timeout=1800, tc_timeout=1800,
                     enum_budget=4, enum_timeout=1800),
}

TITLES = {
    "C01": "Trigger dispatch is exact", "C02": "Every scheduled run happens exactly once", "C03": "A run sees exactly its event's data",
    "C04": "Event data invisible outside its run", "C05": "Payloads released after their last reader", "C06": "Revocation complete, immediate, local",
    "C07": "Reactor lifetime follows its mode", "C08": "Removals and despawns reacted to exactly once", "C09": "Depth-first telescoping with postponed recursion",
    "C10": "Auto-despawn is an exact reference count", "C11": "Quiescent between reaction trees", "C12": "Same sender, same target: order sent",
    "C13": "One persistent private state per registration", "C14": "Reactive accessors trigger as documented", "C15": "One-off reactors",
    "C16": "World reactors", "C17": "syscall family", "C18": "Stale references are harmless",
}
