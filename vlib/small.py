"""Checks with their own small specifications: C10 (AutoDespawn.tla), C17 (Syscall.tla)."""
import json, os, shutil, subprocess, time, hashlib
from . import tlc, progs, engine
from .engine import ToolError, log, ROOT, WORK, EVIDENCE, REPLAYS, BIN

def save(prop, body):
    os.makedirs(REPLAYS, exist_ok=True)
    h = hashlib.sha1(json.dumps(body, sort_keys=True).encode()).hexdigest()[:10]
    path = os.path.join(REPLAYS, "%s-%s.json" % (prop, h))
    json.dump(body, open(path, "w"), indent=1)
    return path

# ----------------------------------------------------------------------------------------------------------------
# C10

AD_INVS = ["TypeOK", "CountIsOwnership", "NeverWhileHeld", "SentOnlyAtZero", "SentOnce", "FirstGcCollects"]

def apalache(module, init, inv, length, wd, timeout=900):
    """Run apalache-mc check; returns (ok, violated, wall, tail)."""
    t0 = time.time()
    out = os.path.join(wd, "apalache-" + module + "-" + init + "-" + str(length))
    p = subprocess.run(["timeout", "-k", "10", str(timeout), "apalache-mc", "check", "--init=" + init, "--inv=" + inv, "--length=%d" % length,
                        "--out-dir=" + out, module + ".tla"], cwd=wd, stdout=subprocess.PIPE, stderr=subprocess.STDOUT, text=True)
    ok = "EXITCODE: OK" in p.stdout
    violated = "The outcome is: Error" in p.stdout
    return ok, violated, time.time() - t0, p.stdout[-1500:]

def inductive_c10(wd):
    """Unbounded safety of the reference-count core (spec/ADInd.tla): Init => IndInv, IndInv /\\ Next => IndInv', plus two
    sensitivity checks (an arbitrary IndInv state exists; two mutated copies of the module are NOT inductive)."""
    src = open(os.path.join(tlc.SPEC, "ADInd.tla")).read()
    open(os.path.join(wd, "ADInd.tla"), "w").write(src)
    res = dict()
    ok0, v0, w0, t0 = apalache("ADInd", "Init", "IndInv", 0, wd)
    ok1, v1, w1, t1 = apalache("ADInd", "IndInit", "IndInv", 1, wd)
    res["init_implies_inv"] = ok0
    res["inv_inductive"] = ok1
    res["wall_s"] = round(w0 + w1, 1)
    # sensitivity
    body = src[:src.rindex("\n====") + 1]
    open(os.path.join(wd, "ADIndT.tla"), "w").write(body.replace("MODULE ADInd ", "MODULE ADIndT ") + "NoState == FALSE\n" + "=" * 77 + "\n")
    okT, vT, wT, tT = apalache("ADIndT", "IndInit", "NoState", 0, wd)
    res["indinit_satisfiable"] = vT
    m1 = src.replace("MODULE ADInd ", "MODULE ADIndM ").replace("cnt' = [cnt EXCEPT ![e] = @ + 1]", "cnt' = cnt")
    open(os.path.join(wd, "ADIndM.tla"), "w").write(m1)
    okM, vM, wM, tM = apalache("ADIndM", "IndInit", "IndInv", 1, wd)
    m2 = src.replace("MODULE ADInd ", "MODULE ADIndN ").replace("pend' = IF cnt[e] = 1 THEN", "pend' = IF cnt[e] <= 2 THEN")
    open(os.path.join(wd, "ADIndN.tla"), "w").write(m2)
    okN, vN, wN, tN = apalache("ADIndN", "IndInit", "IndInv", 1, wd)
    res["mutants_rejected"] = int(vM) + int(vN)
    res["ok"] = bool(ok0 and ok1 and vT and vM and vN)
    if not res["ok"]:
        res["detail"] = (t0 if not ok0 else t1 if not ok1 else tT if not vT else tM if not vM else tN)[-600:]
    return res

def check_c10(tier, seed):
    t0 = time.time()
    wd = os.path.join(WORK, "C10-" + tier)
    shutil.rmtree(wd, ignore_errors=True)
    os.makedirs(wd)
    build_s = engine.build_harness()
    quick = tier == "quick"
    # (a) exhaustive model check with the decrement / send split (real-thread interleavings)
    consts = dict(Ent={1, 2}, Child=3, Threads={"t1", "t2"}, MaxClones=3, MaxOps=8 if quick else 10, SplitDrop=True, Mutants=set())
    cfg = os.path.join(wd, "AD.cfg")
    tlc.write_cfg(cfg, "Spec", consts, invariants=AD_INVS, view="View")
    mc = tlc.run("AutoDespawn.tla", cfg, os.path.join(wd, "mc"), workers=12, timeout=300 if quick else 1500, cache=True)
    if mc.error:
        raise ToolError("TLC error in AutoDespawn.tla:\n" + mc.error)
    # (b) schedules for lock-step replay on real threads
    gconsts = dict(consts, SplitDrop=False, MaxOps=10 if quick else 14)
    gcfg = os.path.join(wd, "ADG.cfg")
    tlc.write_cfg(gcfg, "Spec", gconsts, invariants=["Emitted"])
    num = 400 if quick else 6000
    gen = tlc.run("ADGen.tla", gcfg, os.path.join(wd, "gen"), workers=1, cache=True, timeout=300 if quick else 1200,
                  extra=["-simulate", "num=%d" % num, "-depth", "200", "-seed", str(seed)])
    hists = list(progs.parse_replay_lines(gen.stdout))
    if not hists:
        raise ToolError("no schedules generated:\n" + gen.stdout[-2000:])
    seen, sched = set(), []
    for h in hists:
        key = json.dumps([(o["op"], o["th"], o["e"]) for o in h])
        if key not in seen:
            seen.add(key)
            sched.append(h)
    inp, outp = os.path.join(wd, "sched.ndjson"), os.path.join(wd, "obs.ndjson")
    with open(inp, "w") as f:
        for i, h in enumerate(sched):
            f.write(json.dumps({"id": i, "ops": [{"op": o["op"], "th": o["th"], "e": o["e"]} for o in h]}) + "\n")
    p = subprocess.run([BIN, "adreplay", inp, outp], stdout=subprocess.PIPE, stderr=subprocess.STDOUT, text=True)
    if p.returncode != 0:
        raise ToolError("adreplay failed: " + p.stdout[-2000:])
    viol = []
    ok = 0
    for h, line in zip(sched, open(outp)):
        r = json.loads(line)
        want = [o["alive"] for o in h]
        if r["panicked"] or r["alive"] != want:
            step = next((i for i, (a, b) in enumerate(zip(want, r["alive"])) if a != b), len(r["alive"]))
            viol.append(dict(kind="schedule", step=step, ops=[{"op": o["op"], "th": o["th"], "e": o["e"]} for o in h],
                             expected=want, observed=r["alive"], panicked=r["panicked"]))
        else:
            ok += 1
    # (c) free-running stress with the sound online oracle
    rounds = 3000 if quick else 60000
    rep_path = os.path.join(wd, "stress.json")
    p = subprocess.run([BIN, "adstress", str(seed), str(rounds), rep_path], stdout=subprocess.PIPE, stderr=subprocess.STDOUT, text=True)
    if p.returncode != 0:
        raise ToolError("adstress failed: " + p.stdout[-2000:])
    stress = json.load(open(rep_path))
    # (d) unbounded: inductive invariant of the reference-count core, discharged by Apalache
    ind = inductive_c10(wd)
    rc = 0
    paths = []
    for v in viol[:3]:
        path = save("C10", dict(property="C10", kind="schedule", ops=v["ops"], expected=v["expected"], observed=v["observed"]))
        log("VIOLATION property=C10 replay=%s" % path)
        log("  reason: living entities differ from AutoDespawn.tla after step %d of the schedule" % v["step"])
        rc = 1
    if stress["violations"]:
        path = save("C10", dict(property="C10", kind="stress", seed=seed, rounds=rounds, violations=stress["violations"][:5]))
        log("VIOLATION property=C10 replay=%s" % path)
        log("  reason: %s" % stress["violations"][0]["kind"])
        rc = 1
    if mc.violated and rc == 0:
        log("TOOL-ERROR AutoDespawn.tla violates %s in the model" % mc.violated)
        rc = 2
    if not ind["ok"] and rc == 0:
        log("TOOL-ERROR the inductive invariant of ADInd.tla was not established by Apalache: %s" % json.dumps(ind)[:800])
        rc = 2
    cov = dict(states=mc.distinct, transitions=mc.generated, traces_validated_against_impl=ok,
               samples=[{"schedule": [[o["op"], o["th"], o["e"]] for o in sched[0]], "alive_after_each_op": [o["alive"] for o in sched[0]]}],
               exhaustive=mc.complete, inductive_invariant=ind, schedules_replayed=len(sched), stress=dict((k, stress[k]) for k in ("rounds", "entities", "gcs", "held_checks", "aligned_drops")),
               constants={k: (sorted(v) if isinstance(v, set) else v) for k, v in consts.items()})
    ev = dict(property_id="C10", tier=tier, seed=seed, level="model_checking", coverage=cov,
              assumptions=["Arc strong-count decrement and crossbeam send/try_recv are linearizable",
                           "lock-step replay realises only schedules in which decrement and send are adjacent; the split is explored in the model and by the stress run"],
              wall_s=round(time.time() - t0, 1), violations=len(viol) + len(stress["violations"]), build_s=round(build_s, 1))
    os.makedirs(EVIDENCE, exist_ok=True)
    json.dump(ev, open(os.path.join(EVIDENCE, "C10.json"), "w"), indent=1)
    if rc == 0:
        log("OK property=C10 tier=%s states=%d schedules=%d stress_rounds=%d held_checks=%d wall=%.0fs"
            % (tier, mc.distinct, len(sched), stress["rounds"], stress["held_checks"], time.time() - t0))
    return rc

def check(prop, tier, seed):
    if prop == "C10":
        return check_c10(tier, seed)
    if prop == "C17":
        from . import syscall_check
        return syscall_check.check_c17(tier, seed)
    raise ToolError("no engine for " + prop)
