"""Programs and observation streams: conversion between TLC output, harness input and harness output."""
import json, re

class Hist(list):
    """A predicted stream (list of records) that also carries the monitors' verdict on it: viol = [[property, reason], ...]."""
    viol = ()

def parse_replay_lines(text):
    """Yield histories (lists of records) from TLC output containing  <<"REPLAY", "<json>">>  lines."""
    for line in text.splitlines():
        if not line.startswith('<<"REPLAY", "'):
            continue
        body = line[len('<<"REPLAY", '):-2]          # a TLA+ string literal: "..." with \" and \\ escapes
        obj = json.loads(json.loads(body))
        if isinstance(obj, dict):
            h = Hist(obj["hist"])
            h.viol = [tuple(v) for v in obj.get("viol", [])]
            yield h
        else:
            yield Hist(obj)

def program_of(hist):
    """Recover {cfg, steps, scripts} from a history (model-generated or recorded)."""
    cfg = None
    steps = []
    scripts = {}
    for o in hist:
        t = o["t"]
        if t == "cfg":
            cfg = {"kinds": o["kinds"], "nonce": o["nonce"], "nent": o["nent"], "nworld": o["nworld"], "neworld": o["neworld"], "hier": o.get("hier", 0), "app": o.get("app", []), "rcsys": o.get("rcsys", [])}
        elif t == "drv":
            steps.append({"kind": o["kind"], "ops": []})
        elif t == "run":
            scripts[o["r"]] = {"ops": [], "err": False, "notake": bool(o.get("nt", 0)), "take2": bool(o.get("t2", 0))}
        elif t == "issue":
            if o["r"] < 0:
                steps[-o["r"] - 1]["ops"].append(o["op"])
            else:
                scripts[o["r"]]["ops"].append(o["op"])
        elif t == "bodyend":
            scripts[o["r"]]["err"] = bool(o["err"])
    n = max(scripts) if scripts else 0
    sl = [scripts.get(i, {"ops": [], "err": False, "notake": False, "take2": False}) for i in range(1, n + 1)]
    for s in steps:
        if s["kind"] not in ("ops", "frame", "direct"):
            s.pop("ops")
    return {"cfg": cfg, "steps": steps, "scripts": sl}

def canon(o):
    return json.dumps(o, sort_keys=True, separators=(",", ":"))

def first_diff(expect, got):
    """Index (0-based) of the first differing record, or -1 when equal."""
    n = min(len(expect), len(got))
    for i in range(n):
        if canon(expect[i]) != canon(got[i]):
            return i
    return -1 if len(expect) == len(got) else n

def observable(stream):
    """User-observable projection of a stream: runs with their data, probes, drops, quiesce state."""
    out = []
    for o in stream:
        if o["t"] in ("run", "probe", "drop", "taken", "sysdrop", "quiesce", "panic"):
            out.append(o)
    return out
