#!/usr/bin/env python3
"""dev.py mc <group> [quick|thorough]        model check of one group
   dev.py enum <name> [quick|thorough]       enumerate one ENUMS configuration, replay on the crate, judge with the monitors
   dev.py grp <group> [quick|thorough] [seed] generate + random for one group (no model check), report drift and violations"""
import sys, os, json, shutil, collections
sys.path.insert(0, os.path.dirname(os.path.dirname(os.path.abspath(__file__))))
from vlib import engine, configs, progs

def main():
    cmd, name = sys.argv[1], sys.argv[2]
    tier = sys.argv[3] if len(sys.argv) > 3 else "quick"
    seed = int(sys.argv[4]) if len(sys.argv) > 4 else 1
    wd = os.path.join(engine.WORK, "dev-%s-%s" % (cmd, name))
    shutil.rmtree(wd, ignore_errors=True); os.makedirs(wd)
    if cmd == "mc":
        res, consts = engine.run_mc(configs.GROUPS[name], name, tier, wd, seed)
        print("distinct=%d generated=%d depth=%d complete=%s violated=%s timed_out=%s wall=%.0fs" % (res.distinct, res.generated, res.depth, res.complete, res.violated, res.timed_out, res.wall))
        if res.error or res.violated:
            print(res.stdout[-6000:])
        return
    engine.build_harness()
    if cmd == "enum":
        hists, res, consts = engine.run_enum(configs.ENUMS[name], name, tier, wd)
        print("programs=%d states=%d complete=%s violated=%s wall=%.0fs" % (len(hists), res.distinct, res.complete, res.violated, res.wall))
        if res.violated and res.violated != "Emitted":
            print(res.stdout[-5000:])
        programs = []
        for i, h in enumerate(hists):
            p = progs.program_of(h); p["id"] = "%s-enum-%d" % (name, i); programs.append(p)
        obs = engine.harness_replay(programs, wd, name)
        viol, nrec, nd = engine.judge(hists, obs, [], wd, name, 600)
        print("drift=%d %s" % (len(nd), nd[:3]))
        c = collections.Counter((v["p"], v["why"]) for v in viol)
        print("records=%d violations=%d" % (nrec, len(viol)))
        for k, n in c.most_common(20): print("  ", n, k)
        return
    if cmd == "grp":
        g = configs.GROUPS[name]
        allrecs = []
        if "gen" in g:
            hists, gres = engine.run_gen(g, name, tier, wd, seed)
            programs = []
            for i, h in enumerate(hists):
                p = progs.program_of(h); p["id"] = "%s-gen-%d" % (name, i); programs.append(p)
            obs = engine.harness_replay(programs, wd, name + "_gen")
            nd = [(r["id"], progs.first_diff(h, r["stream"])) for h, r in zip(hists, obs) if progs.first_diff(h, r["stream"]) >= 0]
            print("gen behaviours=%d drift=%d %s wall=%.0fs" % (len(hists), len(nd), nd[:3], gres.wall))
            allrecs += obs
        rcfg = dict(g["rnd"])
        rnd = engine.harness_random(rcfg, seed, max(20, int(configs.TIERS[tier]["rnd_n"] * rcfg.get("rnd_scale", 1.0))), wd, name)
        allrecs += rnd
        viol, nrec = engine.trace_props(allrecs, wd, name, 900)
        c = collections.Counter((v["p"], v["why"]) for v in viol)
        print("random=%d records=%d violations=%d" % (len(rnd), nrec, len(viol)))
        for k, n in c.most_common(20): print("  ", n, k)
        acc, rej = engine.trace_conf(rnd, rcfg["cfg"], wd, name, 900, appname=g.get("subst", {}).get("AppRegs"))
        print("conf accepted=%d rejected=%d %s" % (len(acc), len(rej), rej[:3]))
        return

main()
