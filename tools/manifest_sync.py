#!/usr/bin/env python3
"""Keep the per-check method sentence of MANIFEST.json in step with vlib/configs.py (groups, enumerations, test-suite stage)."""
import json, sys
sys.path.insert(0, "/verif")
from vlib import configs, suite
p = "/verif/MANIFEST.json"
m = json.load(open(p))
MARK = " Method: "
for c in m["checks"]:
    pid = c["property_id"]
    if pid not in configs.PROP_GROUPS:
        continue
    base = c["level_claimed"]["text"].split(MARK)[0]
    groups = configs.PROP_GROUPS[pid]
    enums = configs.PROP_ENUMS.get(pid, [])
    parts = ["Cobweb.tla x Props.tla model-checked exhaustively (TLC) for the alphabets %s" % ", ".join(g for g in groups if "mc_quick" in configs.GROUPS[g]),
             "TLC-simulated behaviours and harness-random programs of the groups %s replayed on the crate, compared record by record with the model's prediction, judged by the monitors (verdict computed by TLC for matching streams, TraceProps for all others and all random programs), random programs validated as behaviours of the spec (TraceConf)" % ", ".join(groups)]
    if enums:
        parts.append("every program of the enumerations %s replayed and judged the same way" % ", ".join(enums))
    if pid in suite.PROPS:
        parts.append("traces of the repository's own 81 tests judged by the runner-protocol monitor HookProps.tla")
    if pid == "C02":
        parts.append("liveness half (Terminates under weak fairness) checked in the model")
    c["level_claimed"]["text"] = base + MARK + "; ".join(parts) + "."
json.dump(m, open(p, "w"), indent=1)
print("ok")
