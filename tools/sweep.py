#!/usr/bin/env python3
"""sweep.py [-j N] [--tier quick] [--props P,Q|all] [--dir seeded|benign] [ids...]
Run every seeded change against the check of its property, in parallel, each on its own scratch worktree of /repo
(/repo itself is never touched). The model-check step is skipped (it does not depend on the code under test).
Appends to seeded/RESULTS.tsv; render with tools/results_md.py."""
import json, os, subprocess, sys, time, shutil
from concurrent.futures import ThreadPoolExecutor

SRC = "/verif"
SW = "/tmp/sw"
SUB = "seeded"
ROOT = SRC      # replaced by a snapshot of /verif in main(), so that edits made while the sweep runs do not reach it

def one(job):
    mid, prop, tier, seed = job
    d = os.path.join(SW, mid + "-" + prop)
    shutil.rmtree(d, ignore_errors=True)
    os.makedirs(d)
    wt = os.path.join(d, "repo")
    subprocess.run(["git", "-C", "/repo", "worktree", "add", "-q", "--detach", wt, "HEAD"], check=True)
    try:
        p = subprocess.run(["git", "-C", wt, "apply", "--whitespace=nowarn", os.path.join(ROOT, SUB, mid, "patch.diff")],
                           stdout=subprocess.PIPE, stderr=subprocess.STDOUT, text=True)
        if p.returncode != 0:
            return (mid, prop, "NOAPPLY", 0, p.stdout.strip()[:100])
        env = dict(os.environ, VERIF_TARGET_SEED=os.path.join(SRC, "harness", "target"), VERIF_REPO=wt, VERIF_SCRATCH=os.path.join(d, "s"), VERIF_SKIP_MC="1", VERIF_SEED=str(seed))
        t0 = time.time()
        p = subprocess.run([os.path.join(ROOT, "check"), prop, "--tier", tier], cwd=ROOT, env=env, stdout=subprocess.PIPE,
                           stderr=subprocess.STDOUT, text=True)
        wall = time.time() - t0
        os.makedirs(os.path.join(SRC, "work", "sweep"), exist_ok=True)
        open(os.path.join(SRC, "work", "sweep", "%s-%s.log" % (mid, prop)), "w").write(p.stdout)
        why = ""
        for line in p.stdout.splitlines():
            if "reason:" in line or "TOOL-ERROR" in line:
                why = line.strip().replace("reason: ", "")[:170]
                break
        drift = ""
        for line in p.stdout.splitlines():
            if "drift=" in line:
                drift = "drift=" + line.split("drift=")[1].split()[0]
                break
        return (mid, prop, "exit=%d" % p.returncode, wall, (why + " " + drift).strip())
    finally:
        subprocess.run(["git", "-C", "/repo", "worktree", "remove", "--force", wt])
        shutil.rmtree(d, ignore_errors=True)

def main():
    global ROOT
    args = sys.argv[1:]
    j, tier, props, sub = 4, "quick", None, "seeded"
    while args and args[0].startswith("-"):
        if args[0] == "-j":
            j = int(args[1]); args = args[2:]
        elif args[0] == "--tier":
            tier = args[1]; args = args[2:]
        elif args[0] == "--props":
            props = args[1].split(","); args = args[2:]
            if props == ["all"]:
                props = ["C%02d" % i for i in range(1, 19)]
        elif args[0] == "--dir":
            sub = args[1]; args = args[2:]
        else:
            raise SystemExit(__doc__)
    global SUB
    SUB = sub
    ids = args or sorted(x for x in os.listdir(os.path.join(ROOT, sub)) if os.path.exists(os.path.join(ROOT, sub, x, "patch.diff")))
    seed = int(os.environ.get("VERIF_SEED", "1"))
    jobs = []
    for mid in ids:
        meta = json.load(open(os.path.join(ROOT, sub, mid, "meta.json")))
        for p in (props or [meta["property"]]):
            jobs.append((mid, p, tier, seed))
    os.makedirs(SW, exist_ok=True)
    ROOT = os.path.join(SW, "snap-%d" % os.getpid())
    subprocess.run(["rsync", "-a", "--delete", "--exclude", ".git", "--exclude", "work", "--exclude", "target", "--exclude", "replays",
                    "--exclude", "evidence", "--exclude", "__pycache__", SRC + "/", ROOT + "/"], check=True)
    out = open(os.path.join(SRC, sub, "RESULTS.tsv"), "a")
    with ThreadPoolExecutor(max_workers=j) as ex:
        for mid, prop, res, wall, why in ex.map(one, jobs):
            line = "%s\t%s\t%s\t%ds\t%s" % (mid, prop, res, wall, why)
            print(line, flush=True)
            out.write(line + "\n"); out.flush()
    subprocess.run(["git", "-C", "/repo", "worktree", "prune"])
    shutil.rmtree(ROOT, ignore_errors=True)

if __name__ == "__main__":
    main()
