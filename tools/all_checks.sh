#!/bin/bash
# all_checks.sh [tier] : every registered check on /repo's current tree, one line each (rc, wall, drift); evidence is rewritten
cd "$(dirname "$0")/.."
TIER=${1:-quick}
mkdir -p work
for P in C01 C02 C03 C04 C05 C06 C07 C08 C09 C10 C11 C12 C13 C14 C15 C16 C17 C18; do
  s=$(date +%s)
  ./check $P --tier $TIER > work/all_$P.log 2>&1; rc=$?
  e=$(date +%s)
  echo "$P rc=$rc $((e-s))s $(grep -c KNOWN-FINDING work/all_$P.log) known; $(grep -E '^OK|VIOLATION|TOOL-ERROR' work/all_$P.log | head -1 | cut -c1-160) $(grep -o 'NOTE drift=[0-9]*' work/all_$P.log)"
done
