#!/bin/bash
# seedscan.sh <seed...> : conformance + monitors for every group under other seeds (looking for false alarms / drift on the unchanged tree)
cd /verif
for S in "$@"; do
  for G in run ev reg comp mix world burst erburst ewburst hier app long; do
    echo "== seed $S group $G: $(python3 tools/dev.py grp $G quick $S 2>&1 | grep -v WARNING | tr '\n' ' ' | cut -c1-600)"
  done
done
