#!/bin/bash
# try_mutant.sh <seeded id> [property ...] : apply the seeded change to /repo, run the checks, undo it
ID=$1; shift
PROPS=${@:-$(python3 -c "import json;print(json.load(open('/verif/seeded/$ID/meta.json'))['property'])")}
cd /repo
if ! git diff --quiet; then echo "/repo has local changes"; exit 2; fi
git apply --whitespace=nowarn /verif/seeded/$ID/patch.diff || { echo "$ID: patch does not apply"; exit 2; }
for P in $PROPS; do
  (cd /verif && VERIF_SEED=${VERIF_SEED:-1} ./check $P --tier ${TIER:-quick} > /tmp/try_$ID_$P.log 2>&1; echo "$ID $P exit=$? $(grep -c VIOLATION /tmp/try_$ID_$P.log) violation lines; $(grep -m1 -E 'reason|TOOL-ERROR|OK property' /tmp/try_$ID_$P.log)")
done
git -C /repo checkout -- .
