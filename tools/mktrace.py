#!/usr/bin/env python3
"""Flatten harness output (one JSON object per program, with a `stream`) into one NDJSON trace for TraceProps."""
import json, sys
def main():
    src, dst = sys.argv[1], sys.argv[2]
    n = 0
    with open(dst, 'w') as out:
        for line in open(src):
            if not line.strip(): continue
            rec = json.loads(line)
            out.write(json.dumps({"t": "reset", "id": str(rec.get("id", n))}) + "\n")
            for o in rec["stream"]:
                out.write(json.dumps(o) + "\n")
            n += 1
    print(n)
if __name__ == '__main__': main()
