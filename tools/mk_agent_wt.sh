#!/bin/bash
# mk_agent_wt.sh <prop> : scratch worktree of /repo for an independent sub-agent (outside /repo and /verif)
P=$1
D=/tmp/ag/$P
rm -rf $D; mkdir -p $D/out
git -C /repo worktree prune
git -C /repo worktree add -q --detach $D/wt HEAD || exit 2
cp /repo/Cargo.lock $D/wt/
cp -a /repo/target $D/wt/target 2>/dev/null
echo $D
