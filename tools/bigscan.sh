#!/bin/bash
# bigscan.sh [seed...] : every group at the thorough size (10 000 simulated + 4 000 random programs) on the unchanged tree
cd "$(dirname "$0")/.."
mkdir -p work
for S in "${@:-1}"; do
  for G in run ev reg comp mix world burst erburst ewburst hier app long; do
    echo "== seed $S group $G: $(python3 tools/dev.py grp $G thorough $S 2>&1 | grep -v WARNING | tr '\n' ' ' | cut -c1-900)"
  done
done
