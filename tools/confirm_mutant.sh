#!/bin/bash
# Confirm a seeded change delivered by a sub-agent:  confirm_mutant.sh <srcdir> <prefix (m1|m2)> <seed id>
#  - demo passes on the unchanged tree, fails with the patch; the 81 existing tests pass with the patch.
# Uses one scratch worktree under /tmp/confirm (removed by the caller when the batch is done).
set -u
SRC=$1; PFX=$2; ID=$3
WT=/tmp/confirm/wt
DEST=/verif/seeded/$ID
if [ ! -d $WT ]; then
  mkdir -p /tmp/confirm
  git -C /repo worktree add -q --detach $WT HEAD || exit 2
  cp /repo/Cargo.lock $WT/
fi
cd $WT
git checkout -q -- . ; git clean -qfd -e target -e Cargo.lock
git checkout -q --detach $(git -C /repo rev-parse HEAD)
cp $SRC/$PFX.demo.rs tests/demo_seed.rs
log=$(mktemp)
res_clean=fail; res_mut=pass; res_suite=fail
if cargo test --offline --test demo_seed >$log 2>&1; then res_clean=pass; fi
cp $log /tmp/confirm/$ID.clean.log
if ! git apply --whitespace=nowarn $SRC/$PFX.patch.diff 2>/tmp/confirm/$ID.apply.log; then echo "$ID: patch does not apply"; exit 1; fi
if cargo test --offline --test demo_seed >$log 2>&1; then res_mut=pass; else res_mut=fail; fi
cp $log /tmp/confirm/$ID.mut.log
if cargo test --offline --test tests >$log 2>&1 && grep -q "81 passed; 0 failed" $log; then res_suite=pass; fi
cp $log /tmp/confirm/$ID.suite.log
git checkout -q -- . ; rm -f tests/demo_seed.rs
echo "$ID: demo_on_clean=$res_clean demo_with_patch=$res_mut suite_with_patch=$res_suite"
if [ $res_clean = pass ] && [ $res_mut = fail ] && [ $res_suite = pass ]; then
  mkdir -p $DEST
  cp $SRC/$PFX.patch.diff $DEST/patch.diff
  cp $SRC/$PFX.demo.rs $DEST/demo.rs
  python3 - "$SRC/$PFX.meta.json" "$DEST/meta.json" "$ID" <<'PY'
import json,sys
m=json.load(open(sys.argv[1]))
out={"id":sys.argv[3],"property":m.get("property"),"summary":m.get("summary"),"needs_to_manifest":m.get("needs_to_manifest"),
 "origin":"independent sub-agent given only the property text and a scratch worktree",
 "confirmed":{"base_commit":"HEAD of /repo at confirmation","ran":["cargo test --offline --test demo_seed (unchanged tree): pass","git apply patch.diff; cargo test --offline --test demo_seed: FAIL","cargo test --offline --test tests (81 existing tests) with patch: pass"]},
 "agent_commands":m.get("commands_run")}
json.dump(out,open(sys.argv[2],'w'),indent=1)
PY
  exit 0
fi
exit 1
