#!/usr/bin/env python3
"""agent_prompt.py <prop> <prefixA> <prefixB> : the brief for an independent mutant-writing sub-agent (property text only)."""
import json, sys
pid, a, b = sys.argv[1], sys.argv[2], sys.argv[3]
p = next(json.loads(l) for l in open('/verif/properties.jsonl') if json.loads(l)['id'] == pid)
print(f"""You are helping to evaluate a verification framework for the Rust crate bevy_cobweb (a Bevy ECS reactivity library:
reactor registration/revocation, reaction triggers, system commands/events, recursive reaction-tree execution, ref-counted
auto-despawn). Your job is to play the role of a developer who introduces a realistic, subtle regression.

You have your own scratch git worktree of the crate at /tmp/ag/{pid}/wt (it builds and tests OFFLINE: always pass --offline to
cargo; there is no network). Work ONLY inside /tmp/ag/{pid}/ . Do NOT read, list or use anything under /verif or /root/.vp,
and do not touch /repo. Ignore the module src/verif.rs and every `#[cfg(cobweb_verif)]` line (they are compiled out; do not edit them).

The property (this is all you get; read the crate's source, README and tests to understand the mechanisms behind it):

  {pid}: {p['title']}
  {p['statement']}
  (It is meant to hold {p['quantifier']['text']}.)

Produce TWO different changes to the crate's source (under src/), called {a} and {b}, touching DIFFERENT mechanisms, each of which
  1. BREAKS this property on the real code,
  2. still compiles, and still passes the complete existing test suite unedited
     (`cargo test --offline --test tests` must report 81 passed; 0 failed),
  3. looks like something a developer could plausibly write (an optimisation, a refactor, a "simplification", an off-by-one,
     a wrong key/list/index, a reordered pair of statements, a forgotten case) - not sabotage that only triggers on a magic value,
  4. needs something SPECIFIC to manifest: a particular interleaving or recursion shape, a multi-step sequence of operations,
     something despawned/revoked at a particular point inside a reaction tree, an unusual but legal input, or two cooperating
     sites that each look fine alone. Changes that ordinary straightforward use would expose at once are not wanted.

For each change also write a demonstration: ONE integration-test file (plain `#[test]` functions using only the public API
of bevy / bevy_cobweb, like the files under tests/test/) that PASSES on the unchanged tree and FAILS with the change applied.
It will be copied to tests/demo_seed.rs in a clean worktree and run with `cargo test --offline --test demo_seed`, so it must be
self-contained (no `mod` of other files).

Deliverables, written to /tmp/ag/{pid}/out/ (for X in {a}, {b}):
  X.patch.diff  - `git diff -- src` of the change alone against the worktree's HEAD (must apply with `git apply` on a clean tree)
  X.demo.rs     - the demonstration test file
  X.meta.json   - {{"property": "{pid}", "summary": "<what was changed, where, and why it looks plausible>",
                   "needs_to_manifest": "<the specific situation needed>", "commands_run": ["..."]}}

Verify everything yourself before finishing: with the change the 81 tests pass and the demo fails; without it the demo passes.
Leave the worktree clean (git checkout -- . ; remove your test files) when done. Builds: first `cargo test` may take a minute;
a copy of a warm target/ directory is already in the worktree. In your final message list the files written and one line per change.""")
