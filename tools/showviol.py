#!/usr/bin/env python3
"""showviol.py <workdir> [progid] [before] : print the trace of the first violating program up to the violation"""
import json,sys
w=sys.argv[1]
v=json.load(open(w+'/verdict.json'))
lines=open(w+'/trace.ndjson').read().split('\n')
if not v['violations']: print("no violations"); sys.exit()
pid=sys.argv[2] if len(sys.argv)>2 and sys.argv[2]!='-' else min(v['violations'],key=lambda y:y['l'])['id']
before=int(sys.argv[3]) if len(sys.argv)>3 else 10**9
vs=sorted([y for y in v['violations'] if y['id']==pid],key=lambda y:y['l'])
for y in vs: print(y)
l=vs[0]['l']; s=l
while json.loads(lines[s-1])['t']!='reset': s-=1
for i in range(max(s,l-before),min(l+4,len(lines))):
    if not lines[i-1]: continue
    o=json.loads(lines[i-1]); t=o.pop('t')
    if t in('poll','pollend'): continue
    if t=='gc' and not o['d']: continue
    if t=='quiesce': o={'tables':o['tables'],'alive_sys':o['alive_sys']}
    print(i,t,json.dumps(o))
