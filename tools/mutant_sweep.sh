#!/bin/bash
# mutant_sweep.sh [ids...] : run every seeded change against the quick check of its property; writes seeded/RESULTS.md
# (each change is applied to /repo with `git apply`, the check is run, and the change is undone straight afterwards)
cd /verif
IDS=${@:-$(ls seeded | grep -v '^_' | grep -v RESULTS)}
OUT=/verif/seeded/RESULTS.tsv
for ID in $IDS; do
  P=$(python3 -c "import json;print(json.load(open('/verif/seeded/$ID/meta.json'))['property'])")
  if ! git -C /repo diff --quiet; then echo "/repo has local changes"; exit 2; fi
  if ! git -C /repo apply --whitespace=nowarn /verif/seeded/$ID/patch.diff 2>/dev/null; then echo -e "$ID\t$P\tNOAPPLY\t-\t-" | tee -a $OUT; continue; fi
  s=$(date +%s)
  VERIF_SEED=${VERIF_SEED:-1} ./check $P --tier ${TIER:-quick} > /tmp/msweep_$ID.log 2>&1; rc=$?
  e=$(date +%s)
  git -C /repo checkout -- .
  why=$(grep -m1 -E 'reason:|TOOL-ERROR' /tmp/msweep_$ID.log | sed 's/^ *reason: //' | cut -c1-150)
  drift=$(grep -m1 -o 'drift=[0-9]*' /tmp/msweep_$ID.log)
  echo -e "$ID\t$P\texit=$rc\t$((e-s))s\t$why $drift" | tee -a $OUT
done
