#!/bin/bash
# rndcheck.sh <gencfg.json> <seed> <n> [workdir] : random programs on the real crate, monitors over the traces
set -e
G=$1; SEED=$2; N=$3; W=${4:-/tmp/h/rc}
mkdir -p $W
(cd /verif/harness && cargo build --offline 2>&1 | grep -E "^error" -A5 || true)
/verif/harness/target/debug/cobweb_harness random $G $SEED $N $W/out.ndjson 2>/dev/null
python3 /verif/tools/mktrace.py $W/out.ndjson $W/trace.ndjson >/dev/null
rm -f $W/verdict.json
(cd /verif/spec && TRACE=$W/trace.ndjson OUT=$W/verdict.json JAVA_TOOL_OPTIONS="-Xss1g" timeout 600 tlc -workers 1 -metadir $W/meta -cleanup -noGenerateSpecTE -config TraceProps.cfg TraceProps.tla > $W/tlc.log 2>&1 || true)
grep -E "Error:|evaluat|line [0-9]+, col" $W/tlc.log | head -10
python3 - $W <<'PY'
import json,sys
from collections import Counter
w=sys.argv[1]
try: v=json.load(open(w+'/verdict.json'))
except Exception as e: print("NO VERDICT", e); sys.exit(0)
print("records", v['consumed'], "violations", len(v['violations']))
c=Counter((x['p'],x['why']) for x in v['violations'])
for k,n in c.most_common(12): print(" ",n,k)
ids=sorted(set(x['id'] for x in v['violations']))
print(" programs:", ids[:5])
PY
