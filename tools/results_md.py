#!/usr/bin/env python3
"""Render seeded/RESULTS.tsv (written by tools/sweep.py) as seeded/RESULTS.md: one row per change, the result of the check of its
own property (last run wins) and the other checks that were tried on it."""
import json, os, collections
root = '/verif/seeded'
rows = collections.OrderedDict()
for line in open(os.path.join(root, 'RESULTS.tsv')):
    f = line.rstrip('\n').split('\t')
    if len(f) >= 5:
        rows[(f[0], f[1])] = f          # last run of (id, property) wins
ids = sorted({k[0] for k in rows}, key=lambda x: (x.split('-')[0], int(x.split('-m')[1])))
out = ["# Seeded changes and the checks that catch them", "",
       "Each change was written by an independent sub-agent that saw only the text of one property and a scratch worktree",
       "(three rounds; rounds 2 and 3 were told in one line each what had been tried before), confirmed here (demo passes on the",
       "unchanged tree, fails with the change; the 81 existing tests pass with the change), then applied to a scratch worktree of",
       "/repo and checked with the quick tier of its property's check (`tools/sweep.py`).", "",
       "| change | property | what was changed | needs | quick check of its property | reason reported | other checks |", "|---|---|---|---|---|---|---|"]
caught = 0
n = 0
for mid in ids:
    meta = json.load(open(os.path.join(root, mid, 'meta.json')))
    prop = meta['property']
    own = rows.get((mid, prop))
    if own is None:
        continue
    n += 1
    summ = (meta.get('summary') or '').replace('|', '/').replace('\n', ' ')[:230]
    need = (meta.get('needs_to_manifest') or '').replace('|', '/').replace('\n', ' ')[:200]
    res = own[2]
    if res == 'exit=1':
        caught += 1
    others = ", ".join("%s: %s" % (k[1], "caught" if v[2] == 'exit=1' else v[2]) for k, v in rows.items() if k[0] == mid and k[1] != prop)
    out.append("| %s | %s | %s | %s | %s (%s) | %s | %s |" % (mid, prop, summ, need, "**caught**" if res == 'exit=1' else res, own[3], own[4].replace('|', '/'), others))
out += ["", "%d of %d caught by the quick check of their own property." % (caught, n), ""]
extra = os.path.join(root, 'NOTES.md')
if os.path.exists(extra):
    out.append(open(extra).read())
open(os.path.join(root, 'RESULTS.md'), 'w').write("\n".join(out) + "\n")
print(caught, n)
