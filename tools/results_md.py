#!/usr/bin/env python3
"""Render seeded/RESULTS.tsv (written by tools/mutant_sweep.sh) as seeded/RESULTS.md."""
import json, os, collections
root = '/verif/seeded'
rows = collections.OrderedDict()
for line in open(os.path.join(root, 'RESULTS.tsv')):
    f = line.rstrip('\n').split('\t')
    if len(f) >= 5:
        rows[(f[0], f[1])] = f          # last run of (id, property) wins
out = ["# Seeded changes and the checks that catch them", "",
       "Each change was written by an independent sub-agent that saw only the text of one property and a scratch worktree",
       "(or ported by hand to the repaired code where noted in its meta.json), confirmed here (demo passes on the unchanged",
       "tree, fails with the change; the 81 existing tests pass with the change), then applied to /repo, checked with the",
       "quick tier of its property's check and undone (`tools/mutant_sweep.sh`).", "",
       "| change | property | what was changed | needs | quick check | reason reported |", "|---|---|---|---|---|---|"]
caught = 0
for (mid, prop), f in rows.items():
    meta = json.load(open(os.path.join(root, mid, 'meta.json')))
    summ = (meta.get('summary') or '').replace('|', '/').replace('\n', ' ')[:230]
    need = (meta.get('needs_to_manifest') or '').replace('|', '/').replace('\n', ' ')[:200]
    res = f[2]
    if res == 'exit=1': caught += 1
    out.append("| %s | %s | %s | %s | %s (%s) | %s |" % (mid, prop, summ, need, "**caught**" if res == 'exit=1' else res, f[3], f[4].replace('|', '/')))
out += ["", "%d of %d caught by the quick check of their own property." % (caught, len(rows)), ""]
extra = os.path.join(root, 'NOTES.md')
if os.path.exists(extra):
    out.append(open(extra).read())
open(os.path.join(root, 'RESULTS.md'), 'w').write("\n".join(out) + "\n")
print(caught, len(rows))
